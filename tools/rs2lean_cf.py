"""Extension of tools/rs2lean.py (builder genmisc): control flow and containers (docs/notes/GEN.md, "Dialect cf").

A translation unit with `dialect="cf"` is parsed by `ParserX` and translated by `FnTranslatorX` (subclasses of the
classes of rs2lean.py; everything not mentioned here is inherited unchanged).  Additions to the subset:

  statements   `let [mut] x: T;` (no initialiser: the variable starts with the zero value of its type — Rust's definite-
               assignment rule guarantees that it is written before it is read), `break;`, `continue;` and `return e;` inside
               `for` loops, `match e { … }` on an `Option` (`Some(p) => …, None => …`) or on integer / byte literals with
               `|` alternatives and a final `_` arm, `x.pop_front();`, `x.push_back(e);`, `x.clear();`, `v[i].push(e);`,
               `let S { a, b } = e;` for a struct declared in the spec, calls of `self.method(…)` declared in the spec
  loops        a `for` loop whose body contains `break` / `continue` / `return`, or whose source is `it.by_ref()`, becomes
               a *recursive* helper on the list of remaining items:  `<fn>_for<k> caps : List elem → State → Res R`
               with `R = [Option Ret ×] [List elem ×] State` (`Option Ret`: the loop contains a `return`; `List elem`: the
               iterator is consumed by reference and its rest is state).  `break` = `pure (…state)`, falling off the end of the
               body = the recursive call, `return e` = `pure (some e, …)`.  An `if` that contains such a jump takes the
               statements after it into its branches (continuation style), so no flag variable is needed.
               sources: `a..b`, `xs`, `&xs`, `xs.iter()`, `&xs[i]`, `it.by_ref()`, `….enumerate()`, `….take(n)`, `….skip(n)`,
               `….step_by(n)`, `….rev()`
  expressions  `self.a.b` (nested field paths the spec lists as fields), `x.f` on a value of a struct type of the spec
               (structs are tuples in field order), `t.0`, `None`, `Some(e)`, `x.is_empty()`, `x.contains(&e)`,
               `x.pop_front()` / `it.next()` / `it.next_back()` as expressions (value `Option`, the container is updated),
               `min(a, b)` / `max(a, b)` on unsigned integers, `match` in expression position
  holes        `cond_holes = {"for2": {lean, args}}`: the condition of the first `if` directly inside that loop is emitted as
               a separate definition `<fn>_<lean>` and the loop (and the function) take it as a parameter — the equality
               theorem is then stated for *every* test that meets the contract the proofs need (see GEN.md on seeded
               change C20-H1).
"""
import sys, re

# The base this dialect extends is tools/rs2lean_cfbase.py (the base translator as it was when the dialect was written;
# tools/rs2lean.py has since been extended independently by other builders — see TRANSLATOR_MODULES in gen_tables.py).
_m = sys.modules.get("rs2lean_cfbase")
if _m is None:
    _mm = sys.modules.get("__main__")
    if getattr(_mm, "FnTranslator", None) is not None and getattr(_mm, "UNITS", None) is not None \
            and "rs2lean_cfbase" in str(getattr(_mm, "__file__", "")):
        _m = _mm
    else:
        import rs2lean_cfbase as _m
rs = _m
N, Code, Var, Unsupported = rs.N, rs.Code, rs.Var, rs.Unsupported
Ty, TInt, TBool, TUnit, TSeq, TTuple, TAbs = rs.Ty, rs.TInt, rs.TBool, rs.TUnit, rs.TSeq, rs.TTuple, rs.TAbs
atom, tuple_pat, tuple_val, tuple_ty, paren_ty, pat_names = rs.atom, rs.tuple_pat, rs.tuple_val, rs.tuple_ty, rs.paren_ty, rs.pat_names


class TOpt(Ty):
    def __init__(self, elem):
        self.elem = elem

    def lean(self):
        return "Option " + paren_ty(self.elem.lean())

    def __eq__(self, o):
        return isinstance(o, TOpt) and (o.elem == self.elem or o.elem is None or self.elem is None)

    def __repr__(self):
        return "Option<%r>" % (self.elem,)


class TIter(TSeq):
    """an iterator held in a variable / field: the list of the items it has not yielded yet"""

    def __repr__(self):
        return "Iter<%r>" % (self.elem,)


class TEnum(TTuple):
    """items of `.enumerate()`: Rust yields (index, item), `List.zipIdx` yields (item, index)"""


class TRec(TTuple):
    """a struct of the spec: a tuple in field order"""

    def __init__(self, name, fields):
        TTuple.__init__(self, [t for _, t in fields])
        self.name, self.fields = name, fields

    def lean(self):
        return tuple_ty(self.items)

    def __repr__(self):
        return self.name


class TOpaque(Ty):
    """a container of another crate whose meaning is given in RsSem.lean (`BitSet`, `VecMap`)"""

    def __init__(self, name):
        self.name = name

    def lean(self):
        return OPAQUE[self.name]["lean"]

    def __eq__(self, o):
        return isinstance(o, TOpaque) and o.name == self.name

    def __repr__(self):
        return self.name


# methods: lean function, argument types, return type (None = unit), mut = the receiver is replaced by the result
OPAQUE = {
    "BitSet": dict(lean="Rs.BitSet", new="Rs.BitSet.empty", methods={
        "insert": dict(lean="Rs.BitSet.insert", args=["usize"], ret=None, mut=True),
        "extend": dict(lean="Rs.BitSet.extend", args=["Vec<usize>"], ret=None, mut=True),
        "contains": dict(lean="Rs.BitSet.contains", args=["usize"], ret="bool"),
        "len": dict(lean="Rs.BitSet.len", args=[], ret="usize"),
        "iter": dict(lean="Rs.BitSet.toList", args=[], ret="Vec<usize>")}),
    "VecMap": dict(lean="Rs.VecMap", new="Rs.VecMap.empty", methods={
        "insert": dict(lean="Rs.VecMap.insert", args=["usize", "u8"], ret=None, mut=True),
        "get": dict(lean="Rs.VecMap.get", args=["usize"], ret="Option<u8>"),
        "len": dict(lean="Rs.VecMap.len", args=[], ret="usize")}),
}


def proj(text, i, n):
    """i-th component of an n-tuple (right-nested pairs)"""
    if n == 1:
        return text
    s = atom(text) + ".2" * i
    if i < n - 1:
        s += ".1"
    return s


def zero_of(t):
    if isinstance(t, TInt):
        return "0"
    if isinstance(t, TBool):
        return "false"
    if isinstance(t, TSeq):
        return "[]"
    if isinstance(t, TOpt):
        return "none"
    if isinstance(t, TTuple):
        return "(" + ", ".join(zero_of(x) for x in t.items) + ")"
    raise Unsupported("no zero value for %r" % (t,))


# ================================================================================================== parser

class ParserX(rs.Parser):
    def expect(self, text):
        # `x = e }` / `return e }`: the last statement of a block may lack its `;`
        if text == ";" and self.at("}"):
            return self.peek()
        return rs.Parser.expect(self, text)

    def stmt(self):
        st = self.stmt0()
        if st.kind in ("exprs", "tail") and st.e.kind == "mcall" and st.e.name == "for_each" and len(st.e.args) == 1 \
                and st.e.args[0].kind == "closure" and len(st.e.args[0].params) == 1:
            # `iter.for_each(|p| body)` is `for p in iter body`
            cl = st.e.args[0]
            return N("for", st.pos, pat=cl.params[0], iter=st.e.recv, body=cl.body)
        return st

    def stmt0(self):
        x = self.peek()
        if x.kind == "id" and x.text == "let":
            j = self.i + 1
            if self.t[j].kind == "id" and self.t[j].text == "mut":
                j += 1
            if self.t[j].kind == "id" and self.t[j + 1].kind == "op" and self.t[j + 1].text == ":":
                save = self.i
                self.i = j + 2
                try:
                    ty = self.type_()
                    if self.at(";"):
                        self.next()
                        return N("letdecl", x.pos, name=self.t[j].text, ty=ty)
                except Unsupported:
                    pass
                self.i = save
            return rs.Parser.stmt(self)
        if x.kind == "id" and x.text in ("break", "continue"):
            self.next()
            if self.at(";"):
                self.next()
            elif not self.at("}"):
                raise Unsupported("`%s` with a label or a value" % x.text, x.pos)
            return N(x.text, x.pos)
        if x.kind == "op" and x.text == "{":
            b = self.block()
            if b.tail is not None and b.tail.kind not in ("if", "match"):
                raise Unsupported("block expression", x.pos)
            return N("blocks", x.pos, b=b)
        if x.kind == "id" and x.text == "match":
            e = self.match_()
            if self.at(";"):
                self.next()
            elif self.at("}") or self.peek().kind == "eof":
                return N("tail", x.pos, e=e)
            return N("matchs", x.pos, e=e)
        return rs.Parser.stmt(self)

    def match_(self):
        x = self.expect("match")
        scrut = self.expr(no_struct=True)
        self.expect("{")
        arms = []
        while not self.at("}"):
            pats = [self.match_pat()]
            while self.at("|"):
                self.next()
                pats.append(self.match_pat())
            if self.at("if"):
                raise Unsupported("`match` arm with a guard", self.peek().pos)
            self.expect("=>")
            if self.at("{"):
                body = self.block()
            else:
                e = self.expr()
                body = N("block", e.pos, stmts=[], tail=e)
            if self.at(","):
                self.next()
            arms.append((pats, body))
        self.expect("}")
        return N("match", x.pos, scrut=scrut, arms=arms)

    def match_pat(self):
        x = self.peek()
        if x.kind in ("num", "byte"):
            return self.primary(False)
        return self.pattern()

    def pattern(self):
        x = self.peek()
        if x.kind == "id" and x.text not in ("mut", "ref", "box") and self.peek(1).kind == "op":
            nxt = self.peek(1).text
            if nxt == "(":
                self.next()
                self.next()
                items = []
                while not self.at(")"):
                    items.append(self.pattern())
                    if self.at(","):
                        self.next()
                self.expect(")")
                return N("pctor", x.pos, name=x.text, items=items)
            if nxt == "{" and x.text[:1].isupper():
                self.next()
                self.next()
                fields = []
                while not self.at("}"):
                    f = self.ident()
                    if self.at(":"):
                        raise Unsupported("struct pattern with renamed fields", f.pos)
                    fields.append(f.text)
                    if self.at(","):
                        self.next()
                self.expect("}")
                return N("pstruct", x.pos, name=x.text, fields=fields)
        return rs.Parser.pattern(self)

    def args(self):
        self.expect("(")
        a = []
        while not self.at(")"):
            if self.at("move"):
                self.next()
            if self.at("|") or self.at("||"):
                a.append(self.closure())
            else:
                a.append(self.expr())
            if self.at(","):
                self.next()
            elif not self.at(")"):
                raise Unsupported("argument list", self.peek().pos)
        self.expect(")")
        return a

    def closure(self):
        x = self.next()
        params = []
        if x.text == "|":
            while not self.at("|"):
                params.append(self.pattern())
                if self.at(":"):
                    self.next()
                    self.type_()
                if self.at(","):
                    self.next()
            self.expect("|")
        if self.at("{"):
            body = self.block()
        else:
            e = self.expr()
            body = N("block", e.pos, stmts=[], tail=e)
        return N("closure", x.pos, params=params, body=body)

    def postfix(self, no_struct):
        e = self.primary(no_struct)
        while True:
            x = self.peek()
            if self.at("."):
                self.next()
                nm = self.next()
                if nm.kind == "num":
                    if not nm.text.isdigit():
                        raise Unsupported("tuple field access `.%s`" % nm.text, nm.pos)
                    e = N("tfield", nm.pos, e=e, i=int(nm.text))
                    continue
                if nm.kind != "id":
                    raise Unsupported("after `.`", nm.pos)
                if self.at("::"):
                    raise Unsupported("turbofish", self.peek().pos)
                if self.at("("):
                    e = N("mcall", nm.pos, recv=e, name=nm.text, args=self.args())
                else:
                    e = N("field", nm.pos, e=e, name=nm.text)
            elif self.at("["):
                self.next()
                i = self.expr()
                self.expect("]")
                e = N("index", x.pos, base=e, idx=i)
            elif self.at("?"):
                raise Unsupported("`?` operator", x.pos)
            elif self.at("("):
                raise Unsupported("call of a computed function value", x.pos)
            else:
                return e

    def primary(self, no_struct):
        x = self.peek()
        if x.kind == "id" and x.text == "match":
            return self.match_()
        if x.kind == "id" and x.text in rs.WIDTH and self.at("::", 1) and self.peek(2).kind == "id" \
                and self.peek(2).text in ("BITS", "MAX") and not self.at("(", 3):
            self.next(); self.next(); c = self.next()
            w = rs.WIDTH[x.text]
            if c.text == "BITS":
                return N("lit", x.pos, v=w, suf="u32")
            if x.text[0] == "u":
                return N("lit", x.pos, v=2 ** w - 1, suf=x.text)
            raise Unsupported("`%s::MAX`" % x.text, x.pos)
        return rs.Parser.primary(self, no_struct)


# ================================================================================================== translator

MUTATORS = ("push", "push_back", "pop_front", "pop_back", "next", "next_back", "clear", "insert", "extend")
ADAPTERS = ("iter", "into_iter", "by_ref", "enumerate", "rev", "take", "skip", "step_by", "iter_mut", "borrow", "borrow_mut")


def strip(e):
    while e.kind == "paren" or (e.kind == "un" and e.op in ("&", "*")):
        e = e.e
    return e


def walk(n, f):
    """pre-order walk over AST nodes (lists / tuples of nodes included)"""
    if isinstance(n, N):
        if f(n) is False:
            return
        for k, v in n.__dict__.items():
            if k not in ("kind", "pos"):
                walk(v, f)
    elif isinstance(n, (list, tuple)):
        for y in n:
            walk(y, f)


def jumps(node, own_loop=True):
    """kinds of jumps in `node` that concern the loop whose body `node` is: `break`/`continue` outside nested loops,
    `return` anywhere"""
    found = set()

    def go(n, nested):
        if isinstance(n, N):
            if n.kind in ("break", "continue"):
                if not nested:
                    found.add(n.kind)
                return
            if n.kind == "return":
                found.add("return")
            if n.kind == "closure":
                return
            inner = nested or n.kind in ("for", "while")
            for k, v in n.__dict__.items():
                if k not in ("kind", "pos"):
                    go(v, inner)
        elif isinstance(n, (list, tuple)):
            for y in n:
                go(y, nested)
    go(node, False)
    return found


class FnTranslatorX(rs.FnTranslator):
    parser_class = ParserX

    def __init__(self, unit, fspec, src, body_text, body_pos):
        rs.FnTranslator.__init__(self, unit, fspec, src, body_text, body_pos)
        self.structs = dict(unit.get("structs", {}))
        self.structs.update(fspec.get("structs", {}))
        self.self_calls = dict(unit.get("self_calls", {}))
        self.self_calls.update(fspec.get("self_calls", {}))
        # `self.f.method(closure)` of a library type as an abstract pure function of the field, the closure text pinned
        self.abs_methods = dict(fspec.get("abs_methods", {}))
        for key, f in self.abs_methods.items():
            self.absfns["%meth:" + key] = dict(lean=f["lean"], args=[f["ty"]], ret=f["ty"])
        self.instances = dict(unit.get("ordered_instances", {}))      # generic `N: Ord` read at a fixed ordered Lean type
        self.mut_calls = dict(fspec.get("mut_calls", {}))
        for key, f in self.mut_calls.items():
            self.absfns["%mut:" + key] = dict(lean=f["lean"], args=[a for a in f["args"] if not a.startswith("closure:")],
                                              ret=f["ret"], monadic=True)
        self.struct_calls = dict(unit.get("struct_calls", {}))
        self.struct_calls.update(fspec.get("struct_calls", {}))
        self.struct_skip = dict(unit.get("struct_skip", {}))
        self.holes = dict(fspec.get("cond_holes", {}))
        self.holes_used = set()
        for key, h in self.holes.items():
            self.absfns["%hole:" + h["lean"]] = dict(lean=h["lean"], args=[t for _, t in h["args"]], ret="bool", monadic=True)
        self.cf = []            # stack of jump contexts of the enclosing translated loops
        self.n_src = 0

    # ---------------------------------------------------------------- types
    def ty_of_text(self, s):
        while ">>" in s:
            s = s.replace(">>", "> >")
        return rs.FnTranslator.ty_of_text(self, s)

    def ty(self, t):
        if t.kind == "tname":
            nm = t.name
            if nm == "Option" and len(t.args) == 1:
                return TOpt(self.ty(t.args[0]))
            if nm in ("VecDeque",) and len(t.args) == 1:
                return TSeq(self.ty(t.args[0]))
            if nm == "Iter" and len(t.args) == 1:
                return TIter(self.ty(t.args[0]))
            if nm in OPAQUE and nm not in self.aliases:
                return TOpaque(nm)
            if nm in self.instances and not t.args:
                ta = TAbs(nm, self.instances[nm])
                ta.ordered = True
                return ta
            if nm in self.structs and not t.args:
                return TRec(nm, [(f, self.ty_of_text(ft)) for f, ft in self.structs[nm]])
        return rs.FnTranslator.ty(self, t)

    def abs_sig(self, lean):
        for f in self.absfns.values():
            if f["lean"] == lean and f.get("monadic"):
                tys = [self.ty_of_text(a).lean() for a in f["args"]]
                r = "Res " + paren_ty(self.ty_of_text(f["ret"]).lean()) if f["ret"] else "Res Unit"
                return " → ".join([paren_ty(t) if "→" in t else t for t in tys] + [r])
        return rs.FnTranslator.abs_sig(self, lean)

    # ---------------------------------------------------------------- aliases `let a = &[mut] self.f;`
    def find_aliases(self):
        self.alias = {}
        for m in re.finditer(r"\blet\s+(?:mut\s+)?(\w+)\s*=\s*&\s*(?:mut\s+)?self\s*\.\s*([\w]+(?:\s*\.\s*\w+)*)\s*;", self.body_text):
            tgt = "self." + "".join(m.group(2).split())
            if tgt in self._self_names:
                self.alias[m.group(1)] = tgt

    # ---------------------------------------------------------------- self paths
    def lookup(self, name, node):
        al = getattr(self, "alias", {})
        if name in al:
            for sc in reversed(self.scopes):
                if name in sc:
                    return sc[name]
            return rs.FnTranslator.lookup(self, al[name], node)
        return rs.FnTranslator.lookup(self, name, node)

    def known(self, name):
        for sc in reversed(self.scopes):
            if name in sc:
                return sc[name]
        if name in self._self_names:
            return True
        return None

    @property
    def _self_names(self):
        return set("self." + nm for nm, _ in self.spec.get("self_fields", []))

    def self_chain(self, e):
        """(['a','b',…]) when `e` is `self.a.b…`, else None"""
        names = []
        while e.kind == "field":
            names.append(e.name)
            e = e.e
        if e.kind == "var" and e.name == "self" and names:
            return list(reversed(names))
        return None

    def self_prefix(self, e):
        """longest prefix of the chain `self.a.b.c` that the spec declares as a field: (rust name, remaining field names)"""
        ch = self.self_chain(e)
        if ch is None:
            return None
        for k in range(len(ch), 0, -1):
            nm = "self." + ".".join(ch[:k])
            if nm in self._self_names:
                return nm, ch[k:]
        self.err("`self.%s` is not a field listed in the translation spec" % ".".join(ch), e)

    def _lhs_root(self, e):
        while True:
            if e.kind == "index":
                e = e.base
            elif e.kind == "paren":
                e = e.e
            elif e.kind == "un" and e.op in ("*", "&"):
                e = e.e
            elif e.kind == "field":
                sp = self.self_prefix(e) if self.self_chain(e) is not None else None
                if sp is not None:
                    return sp[0]
                e = e.e
            elif e.kind == "tfield":
                e = e.e
            elif e.kind == "mcall" and e.name in ADAPTERS:
                e = e.recv
            elif e.kind == "var":
                return getattr(self, "alias", {}).get(e.name, e.name)
            else:
                self.err("assignment target is not a variable, a field, `v[i]` or `*r`", e)

    def _reads(self, n, out):
        if isinstance(n, N):
            if n.kind == "field" and self.self_chain(n) is not None:
                nm = self.self_prefix(n)[0]
                if nm not in out:
                    out.append(nm)
                return
            if n.kind == "var":
                nm = getattr(self, "alias", {}).get(n.name, n.name)
                if nm not in out:
                    out.append(nm)
                return
            for k, v in n.__dict__.items():
                if k in ("kind", "pos"):
                    continue
                self._reads(v, out)
        elif isinstance(n, (list, tuple)):
            for x in n:
                self._reads(x, out)

    # ---------------------------------------------------------------- assigned variables
    def _assigned(self, n, decl, out):
        def add(r):
            if r not in decl and r not in out:
                out.append(r)
        k = n.kind
        if k == "block":
            d = set(decl)
            for s in n.stmts:
                self._assigned(s, d, out)
                if s.kind == "let":
                    for nm in self.pat_names_x(s.pat):
                        d.add(nm)
                elif s.kind == "letdecl":
                    d.add(s.name)
            if n.tail is not None:
                self._assigned(n.tail, d, out)
        elif k == "let":
            self._mut_expr(n.init, decl, out)
        elif k == "letdecl":
            pass
        elif k == "blocks":
            self._assigned(n.b, decl, out)
        elif k == "assign":
            r = self._lhs_root(n.lhs)
            if n.lhs.kind == "un" and n.lhs.op == "*":
                r = "*" + r
            add(r)
            self._mut_expr(n.rhs, decl, out)
        elif k == "exprs":
            self._mut_expr(n.e, decl, out)
        elif k in ("ifs", "tail", "matchs"):
            self._assigned(n.e, decl, out)
        elif k == "if":
            self._mut_expr(n.cond, decl, out)
            self._assigned(n.then, decl, out)
            if n.els is not None:
                self._assigned(n.els, decl, out)
        elif k == "match":
            self._mut_expr(n.scrut, decl, out)
            for pats, body in n.arms:
                d = set(decl)
                for p in pats:
                    if p.kind not in ("lit",):
                        d |= set(self.pat_names_x(p))
                self._assigned(body, d, out)
        elif k == "while":
            self._mut_expr(n.cond, decl, out)
            self._assigned(n.body, decl, out)
        elif k == "for":
            d = set(decl) | set(self.pat_names_x(n.pat))
            inner = []
            self._assigned(n.body, d, inner)
            it_mut = rs.iter_mut_target(n.iter)
            for r in inner:
                if r.startswith("*"):
                    if it_mut is None or r[1:] not in self.pat_names_x(n.pat):
                        self.err("`*%s = …` outside a `for %s in ….iter_mut()` loop" % (r[1:], r[1:]), n)
                    r = self._lhs_root(it_mut)
                if r not in decl and r not in out:
                    out.append(r)
            if self.is_by_ref(n.iter):
                add(self._lhs_root(n.iter))
        elif k == "return":
            if n.e is not None:
                self._mut_expr(n.e, decl, out)
        elif k in ("break", "continue"):
            pass
        else:
            self._mut_expr(n, decl, out)

    def _mut_expr(self, e, decl, out):
        """containers / iterators mutated by method calls inside the expression `e`"""
        def f(n):
            if n.kind in ("if", "match", "block"):
                self._assigned(n, decl, out)
                return False
            if n.kind == "closure":
                return False
            if n.kind == "call" and "::".join(n.path) in getattr(self, "mut_calls", {}):
                f = self.mut_calls["::".join(n.path)]
                for a, at in zip(n.args, f["args"]):
                    if at.replace(" ", "").startswith("&mut"):
                        r = self._lhs_root(a)
                        if r not in decl and r not in out:
                            out.append(r)
            if self.abs_method_key(n) is not None:
                r = self._lhs_root(n.recv)
                if r not in decl and r not in out:
                    out.append(r)
                return False
            if n.kind == "mcall":
                if n.recv.kind == "var" and n.recv.name == "self" and n.name in self.self_calls:
                    for w in self.self_calls[n.name].get("writes", []):
                        if w not in decl and w not in out:
                            out.append(w)
                elif n.name in MUTATORS:
                    r = self._lhs_root(n.recv)
                    if r not in decl and r not in out:
                        out.append(r)
            return True
        walk(e, f)

    def outer_vars(self, names, node):
        """`*r = e` inside an `if` of an `iter_mut()` loop body: the element variable `r` itself is the assigned variable"""
        vs = []
        for nm in names:
            if nm.startswith("*"):
                v = self.lookup(nm[1:], node)
                if not v.ref_elem:
                    self.err("`%s = …` outside an `iter_mut()` loop" % nm, node)
                vs.append(v)
            else:
                vs.append(self.lookup(nm, node))
        return vs

    def pat_names_x(self, p):
        if p.kind == "pid":
            return [p.name]
        if p.kind == "pstruct":
            return list(p.fields)
        if p.kind == "lit":
            return []
        out = []
        for x in p.items:
            out += self.pat_names_x(x)
        return out

    def is_by_ref(self, it):
        it = strip(it)
        return it.kind == "mcall" and it.name == "by_ref" and not it.args

    # ---------------------------------------------------------------- expressions
    def expr(self, e, code, expected=None):
        k = e.kind
        if k == "field":
            if self.self_chain(e) is not None:
                nm, rest = self.self_prefix(e)
                v = self.lookup(nm, e)
                s, t = v.lean, v.ty
            else:
                s, t = self.expr(e.e, code)
                rest = [e.name]
            for f in rest:
                if not isinstance(t, TRec):
                    self.err("field access `.%s` on a value of type %r" % (f, t), e)
                names = [fn for fn, _ in t.fields]
                if f not in names:
                    self.err("struct `%s` has no field `%s` in the translation spec" % (t.name, f), e)
                i = names.index(f)
                s, t = proj(s, i, len(names)), t.fields[i][1]
            return s, t
        if k == "tfield":
            s, t = self.expr(e.e, code)
            if not isinstance(t, TTuple) or e.i >= len(t.items):
                self.err("tuple field `.%d` on %r" % (e.i, t), e)
            return proj(s, e.i, len(t.items)), t.items[e.i]
        if k == "cast" and strip(e.e).kind == "mcall" and strip(e.e).name == "ceil" and "f32:log2:ceil" in self.absfns:
            x = strip(strip(e.e).recv)
            if x.kind == "mcall" and x.name == "log2" and strip(x.recv).kind == "cast":
                inner = strip(x.recv)
                f = self.absfns["f32:log2:ceil"]
                v, vt = self.expr(inner.e, code, None)
                target = self.ty(e.ty)
                if not (inner.ty.kind == "tname" and inner.ty.name == "f32") or vt != self.ty_of_text(f["args"][0]) \
                        or target != self.ty_of_text(f["ret"]):
                    self.err("`(x as f32).log2().ceil() as T` with x : %r, T = %r (the spec declares %s → %s)"
                             % (vt, target, f["args"][0], f["ret"]), e)
                return "%s %s" % (f["lean"], atom(v)), target
        if k == "cast":
            target = self.ty(e.ty)
            if isinstance(target, TAbs):
                v, vt = self.expr(e.e, code, None)
                key = "as:%r:%s" % (vt, target.name)
                if key not in self.absfns:
                    self.err("cast `%r as %s` (declare the abstract function `%s` in the spec)" % (vt, target.name, key), e)
                return "%s %s" % (self.absfns[key]["lean"], atom(v)), target
        if k == "bin" and e.op in ("+", "-", "*", "/") and strip(e.l).kind == "cast" and isinstance(self.ty(strip(e.l).ty), TAbs):
            l, lt = self.expr(e.l, code, None)
            r, rt = self.expr(e.r, code, lt)
            key = "op:%s:%s" % (e.op, lt.name)
            if lt != rt or key not in self.absfns:
                self.err("`%s` on %r and %r (declare the abstract function `%s` in the spec)" % (e.op, lt, rt, key), e)
            return "%s %s %s" % (self.absfns[key]["lean"], atom(l), atom(r)), lt
        if k == "un" and e.op == "*" and strip(e.e).kind in ("mcall", "index", "field"):
            return self.expr(e.e, code, expected)
        if k == "bin" and e.op in ("<", ">", "<=", ">=", "==", "!="):
            sl = e.l
            while sl.kind == "paren":
                sl = sl.e
            if sl.kind == "bin" and sl.op in ("<<", ">>") and self.is_lit(sl.l) and not self.is_lit(e.r):
                # `(1 << k) <= n`: the literal takes the type of the other side of the comparison
                r, rt = self.expr(e.r, code)
                l, lt = self.expr(e.l, code, rt)
                if lt != rt or not isinstance(lt, TInt) or lt.signed:
                    self.err("comparison of %r with %r" % (lt, rt), e)
                if e.op in ("==", "!="):
                    return "%s %s %s" % (atom(l), e.op, atom(r)), TBool()
                return "decide (%s %s %s)" % (atom(l), {"<": "<", ">": ">", "<=": "≤", ">=": "≥"}[e.op], atom(r)), TBool()
            lt0 = self.peek_type(e.l) if strip(e.l).kind in ("var",) else None
            l0 = strip(e.l)
            if isinstance(lt0, TAbs) or l0.kind in ("field", "index", "var"):
                sub = Code()
                saved = self.n_tmp
                try:
                    _, tl = self.expr(e.l, sub)
                except Unsupported:
                    tl = None
                self.n_tmp = saved
                if isinstance(tl, TAbs) and getattr(tl, "ordered", False):
                    l, lt = self.expr(e.l, code)
                    r, rt = self.expr(e.r, code, lt)
                    if rt != lt:
                        self.err("comparison of %r with %r" % (lt, rt), e)
                    if e.op in ("==", "!="):
                        return "%s %s %s" % (atom(l), e.op, atom(r)), TBool()
                    return "decide (%s %s %s)" % (atom(l), {"<": "<", ">": ">", "<=": "≤", ">=": "≥"}[e.op], atom(r)), TBool()
        if k == "var" and e.name == "None":
            if not isinstance(expected, TOpt):
                self.err("`None` where the expected type is not known to be an `Option`", e)
            return "none", expected
        if k == "match":
            return self.match_expr(e, code, expected)
        if k == "closure":
            self.err("closure outside the translated iterator methods", e)
        if k == "struct" and e.name in self.structs:
            want = [f for f, _ in self.structs[e.name]]
            skip = self.struct_skip.get(e.name, [])
            e = N("struct", e.pos, name=e.name, fields=[(f, x) for f, x in e.fields if f not in skip])
            names = [f for f, _ in e.fields]
            if names != want:
                self.err("struct literal `%s` has fields %s, the spec (and the theorems) expect %s in this order"
                         % (e.name, ",".join(names), ",".join(want)), e)
            rt = self.ty_of_text(e.name)
            parts = [self.expr(x, code, ft) for (_, x), ft in zip(e.fields, rt.items)]
            for (s, t), ft, f in zip(parts, rt.items, names):
                if t != ft:
                    self.err("field `%s` of `%s` has type %r, the spec says %r" % (f, e.name, t, ft), e)
            return "(" + ", ".join(p[0] for p in parts) + ")", rt
        if k == "index" and e.idx.kind == "range":
            # `&v[a..b]` as a value: the sub-list (bounds checked)
            b, bt = self.expr(e.base, code)
            if not isinstance(bt, TSeq):
                self.err("slice of %r" % (bt,), e)
            r = e.idx
            if r.incl:
                self.err("inclusive slice bounds", e)
            lo = "0" if r.lo is None else self.expr(r.lo, code, TInt("usize"))[0]
            hi = ("%s.length" % atom(b)) if r.hi is None else self.expr(r.hi, code, TInt("usize"))[0]
            t = self.tmp()
            code.bind(t, ("call", "Rs.slice %s %s %s" % (atom(b), atom(lo), atom(hi))))
            return t, TSeq(bt.elem)
        if k == "index" and e.idx.kind != "range":
            # base may be a record field etc.; same as the base class, repeated here because the base class evaluates
            # `self.f` only for direct fields
            b, bt = self.expr(e.base, code)
            if not isinstance(bt, TSeq):
                self.err("indexing into a value of type %r" % (bt,), e)
            i, it = self.expr(e.idx, code, TInt("usize"))
            if it != TInt("usize"):
                self.err("index of type %r (usize expected)" % (it,), e.idx)
            t = self.tmp()
            code.bind(t, ("call", "Rs.idx %s %s" % (atom(b), atom(i))))
            return t, bt.elem
        return rs.FnTranslator.expr(self, e, code, expected)

    def call(self, e, code, expected):
        path = "::".join(e.path)
        if path == "Some" and len(e.args) == 1:
            s, t = self.expr(e.args[0], code, expected.elem if isinstance(expected, TOpt) else None)
            return "some " + atom(s), TOpt(t)
        if path in ("min", "max", "cmp::min", "cmp::max", "std::cmp::min", "std::cmp::max") and len(e.args) == 2 \
                and path not in self.absfns and e.path[-1] not in self.calls:
            if self.is_lit(e.args[0]) and not self.is_lit(e.args[1]):
                r, rt = self.expr(e.args[1], code, expected)
                l, lt = self.expr(e.args[0], code, rt)
            else:
                l, lt = self.expr(e.args[0], code, expected)
                r, rt = self.expr(e.args[1], code, lt)
            if lt != rt or not isinstance(lt, TInt) or lt.signed:
                self.err("`%s` on %r and %r" % (path, lt, rt), e)
            return "Nat.%s %s %s" % (e.path[-1], atom(l), atom(r)), lt
        if path in self.spec.get("zero_ctors", []) and not e.args and e.path[0] in self.structs:
            t = self.ty_of_text(e.path[0])
            return zero_of(t), t
        if len(e.path) == 2 and e.path[1] == "new" and e.path[0] in OPAQUE and not e.args:
            return OPAQUE[e.path[0]]["new"], TOpaque(e.path[0])
        if path in ("VecDeque::new",) and not e.args:
            if not isinstance(expected, TSeq):
                self.err("`%s()` without a declared element type" % path, e)
            return "[]", expected
        return rs.FnTranslator.call(self, e, code, expected)

    def container(self, recv, node):
        """the variable behind `recv` when it is directly a variable / `self` field (something a method may update)"""
        r = strip(recv)
        if r.kind == "var" or (r.kind == "field" and self.self_chain(r) is not None and not self.self_prefix(r)[1]):
            return self.lookup(self._lhs_root(r), node)
        return None

    def mcall(self, e, code, expected):
        nm = e.name
        recv = strip(e.recv)
        if recv.kind == "var" and recv.name == "self":
            return self.self_call(e, code, expected)
        if recv.kind == "field" and self.self_chain(recv) is not None:
            key = "self." + ".".join(self.self_chain(recv)) + "." + nm
            if key in self.absfns:
                return self.abs_call(key, e, code)
        if nm in ("checked_shl", "wrapping_shl") and len(e.args) == 1:
            l, lt = self.expr(e.recv, code, expected.elem if isinstance(expected, TOpt) else expected)
            r, rt = self.expr(e.args[0], code, TInt("u32"))
            if not isinstance(lt, TInt) or lt.signed or rt != TInt("u32"):
                self.err("`%s` on %r by %r" % (nm, lt, rt), e)
            if nm == "checked_shl":
                return "Rs.checkedShl %d %s %s" % (lt.w, atom(l), atom(r)), TOpt(lt)
            return "Rs.wrappingShl %d %s %s" % (lt.w, atom(l), atom(r)), lt
        if nm == "unwrap_or" and len(e.args) == 1:
            l, lt = self.expr(e.recv, code)
            if not isinstance(lt, TOpt):
                self.err("`.unwrap_or` on %r" % (lt,), e)
            d, dt = self.expr(e.args[0], code, lt.elem)
            if dt != lt.elem:
                self.err("`.unwrap_or(%r)` on %r" % (dt, lt), e)
            return "%s.getD %s" % (atom(l), atom(d)), lt.elem
        if nm in ("into_iter", "iter") and not e.args and not isinstance(self.peek_type(e.recv), TOpaque):
            l, lt = self.expr(e.recv, code)
            if isinstance(lt, TSeq):
                return l, TIter(lt.elem)
        if recv.kind == "var" and isinstance(self.peek_type(recv), TRec):
            key = "%s.%s" % (self.peek_type(recv).name, nm)
            if key in self.struct_calls:
                return self.struct_call(key, e, code)
        if nm == "fold" and len(e.args) == 2 and e.args[1].kind == "closure":
            return self.fold(e, code, expected)
        if nm == "all" and len(e.args) == 1 and e.args[0].kind == "closure":
            lst, elem_t, br = self.loop_source(e.recv, code, e)
            f, rt = self.closure_fn(e.args[0], [elem_t], "all", TBool())
            if not isinstance(rt, TBool):
                self.err("`.all` closure of type %r" % (rt,), e)
            t = self.tmp()
            code.bind(t, ("call", "%s.allM %s" % (atom(lst), atom(f))))
            return t, TBool()
        if nm == "collect" and not e.args and self.is_iter_chain(e.recv):
            lst, elem_t, br = self.loop_source(e.recv, code, e)
            return lst, TSeq(elem_t)
        if nm == "max" and not e.args and self.is_iter_chain(e.recv):
            lst, elem_t, br = self.loop_source(e.recv, code, e)
            if not isinstance(elem_t, TInt) or elem_t.signed:
                self.err("`.max()` over %r" % (elem_t,), e)
            return "%s.max?" % atom(lst), TOpt(elem_t)
        if nm == "expect" and len(e.args) == 1 and e.args[0].kind == "str" or nm == "unwrap" and not e.args:
            r, t = self.expr(e.recv, code)
            if not isinstance(t, TOpt):
                self.err("`.%s` on %r" % (nm, t), e)
            tv = self.tmp()
            code.bind(tv, ("call", "Rs.expect %s" % atom(r)))
            return tv, t.elem
        if nm == "map" and len(e.args) == 1 and e.args[0].kind == "closure" and not self.is_iter_chain(e.recv, strict=True):
            r, t = self.expr(e.recv, code)
            if not isinstance(t, TOpt):
                self.err("`.map(closure)` on %r (only iterators and `Option`s)" % (t,), e)
            f, rt = self.closure_fn(e.args[0], [t.elem], "map", None)
            tv = self.tmp()
            code.bind(tv, ("call", "Rs.optMapM %s %s" % (atom(f), atom(r))))
            return tv, TOpt(rt)
        rt_ = self.peek_type(e.recv)
        if isinstance(rt_, TOpaque):
            return self.opaque_call(e, code)
        if recv.kind == "var" and "%s.%s" % (recv.name, nm) in self.absfns:
            return self.abs_call("%s.%s" % (recv.name, nm), e, code)
        if nm in ("into_iter", "clone") and not e.args and isinstance(self.peek_type(e.recv), TAbs):
            return self.expr(e.recv, code, expected)
        if nm == "into" and not e.args and isinstance(self.peek_type(e.recv), TRec):
            return self.expr(e.recv, code, expected)          # `I: Into<Interval<N>>` read at `Interval<N>` itself
        if nm == "last" and not e.args:
            r, t = self.expr(e.recv, code)
            if not isinstance(t, TSeq):
                self.err("`.last()` on %r" % (t,), e)
            return "%s.getLast?" % atom(r), TOpt(t.elem)
        if nm == "is_empty" and not e.args:
            r, t = self.expr(e.recv, code)
            if not isinstance(t, TSeq):
                self.err("`.is_empty()` on %r" % (t,), e)
            return "%s.isEmpty" % atom(r), TBool()
        if nm == "contains" and len(e.args) == 1:
            r, t = self.expr(e.recv, code)
            if not isinstance(t, TSeq) or isinstance(t.elem, TAbs):
                self.err("`.contains` on %r" % (t,), e)
            a, at = self.expr(e.args[0], code, t.elem)
            if at != t.elem:
                self.err("`.contains(%r)` on %r" % (at, t), e)
            return "%s.contains %s" % (atom(r), atom(a)), TBool()
        if nm in ("pop_front", "next", "next_back", "pop_back") and not e.args:
            v = self.container(e.recv, e)
            if v is None or not isinstance(v.ty, TSeq):
                self.err("`.%s()` on something other than a sequence / iterator held in a variable or field" % nm, e)
            if (nm in ("next", "next_back")) != isinstance(v.ty, TIter):
                self.err("`.%s()` on %r" % (nm, v.ty), e)
            t = self.tmp()
            if nm in ("pop_front", "next"):
                code.let(t, "%s.head?" % v.lean)
                code.let(v.lean, "%s.drop 1" % v.lean)
            else:
                code.let(t, "%s.getLast?" % v.lean)
                code.let(v.lean, "%s.dropLast" % v.lean)
            return t, TOpt(v.ty.elem)
        if nm in ("clone", "to_owned", "into") and not e.args and nm == "clone":
            return self.expr(e.recv, code, expected)
        return rs.FnTranslator.mcall(self, e, code, expected)

    def fold(self, e, code, expected):
        """`it.fold(init, |acc, x| body)` = `List.foldlM` of the closure, a named helper `<fn>_fold<k>`"""
        self.n_fold = getattr(self, "n_fold", 0) + 1
        name = "%s_fold%d" % (self.lean_fn, self.n_fold)
        lst, elem_t, br = self.loop_source(e.recv, code, e)
        if br is not None:
            self.err("`.by_ref().fold(…)`", e)
        init, acc_t = self.expr(e.args[0], code, expected)
        cl = e.args[1]
        if len(cl.params) != 2:
            self.err("`fold` closure with %d parameters" % len(cl.params), cl)
        names = self.pat_names_x(cl.params[0]) + self.pat_names_x(cl.params[1])
        if jumps(cl.body) or self.assigned(cl.body):
            self.err("`fold` closure that assigns outer variables or jumps", cl)
        caps = self.captured(cl.body, [], names)
        saved_scopes, saved_tail = self.scopes, self.tail_expected
        self.scopes = [dict((v.rust, Var(v.rust, v.lean, v.ty)) for v in caps), {}]
        self.loop_depth += 1
        try:
            p1 = self.lean_pat(cl.params[0], acc_t, cl)
            p2 = self.lean_pat(cl.params[1], elem_t, cl)
            body = Code()
            r, rt = self.block_value(cl.body, body, acc_t)
            if rt != acc_t:
                self.err("`fold` closure returns %r, the accumulator is %r" % (rt, acc_t), cl)
            body.final = ("pure", r)
        finally:
            self.scopes, self.tail_expected = saved_scopes, saved_tail
            self.loop_depth -= 1
        lines = ["/-- the closure of `.fold(…)` (line %d) -/" % self.src.line_of(cl.pos),
                 "%s : %s → %s → Res %s" % (self.helper_header(name, caps), paren_ty(acc_t.lean()), paren_ty(elem_t.lean()),
                                           paren_ty(acc_t.lean())),
                 "  | %s, %s => do" % (p1, p2)]
        rs.emit_code(body, 4, lines)
        self.helpers.append("\n".join(lines))
        t = self.tmp()
        code.bind(t, ("call", "%s.foldlM %s %s" % (atom(lst), atom(name + self.abs_args() + "".join(" " + v.lean for v in caps)), atom(init))))
        return t, acc_t

    def struct_call(self, key, e, code):
        """`v.method(args)` on a local variable `v` of a struct type of the spec, `method` a translated sibling function:
        the fields it reads are passed, the fields it writes come back and `v` is rebuilt"""
        f = self.struct_calls[key]
        v = self.lookup(strip(e.recv).name, e)
        rec = v.ty
        names = [fn for fn, _ in rec.fields]
        if len(f["args"]) != len(e.args):
            self.err("`%s` called with %d arguments, the spec says %d" % (key, len(e.args), len(f["args"])), e)
        parts = [proj(v.lean, names.index(fn), len(names)) for fn in f["fields_in"]]
        for a, at in zip(e.args, f["args"]):
            want = self.ty_of_text(at)
            s_, t = self.expr(a, code, want)
            if t != want:
                self.err("argument of `%s` has type %r, the spec says %r" % (key, t, want), a)
            parts.append(atom(s_))
        outs = [self.tmp() for _ in f.get("writes", [])]
        rt = self.ty_of_text(f["ret"]) if f.get("ret") else TUnit()
        res = None
        pat = list(outs)
        if not isinstance(rt, TUnit):
            res = self.tmp()
            pat.append(res)
        code.bind(tuple_pat(pat), ("call", f["lean"] + self.abs_args() + "".join(" " + atom(p_) for p_ in parts)))
        if outs:
            new = []
            for i, fn in enumerate(names):
                new.append(outs[f["writes"].index(fn)] if fn in f["writes"] else proj(v.lean, i, len(names)))
            code.let(v.lean, "(" + ", ".join(new) + ")" if len(new) > 1 else new[0])
        return (res, rt) if res is not None else ("()", rt)

    def peek_type(self, e):
        """type of a simple receiver expression (variables, fields) without emitting code; None when not simple"""
        x = strip(e)
        if x.kind == "var" or (x.kind == "field" and (self.self_chain(x) is not None or strip(x.e).kind == "var")):
            try:
                saved = self.n_tmp
                _, t = self.expr(x, Code())
                self.n_tmp = saved
                return t
            except Unsupported:
                return None
        return None

    def is_iter_chain(self, e, strict=False):
        """`e` is an iterator expression (`x.iter()`, `x.into_iter()`, adapters on one)"""
        x = strip(e)
        while x.kind == "mcall" and x.name in ("map", "enumerate", "rev", "take", "skip", "step_by"):
            x = strip(x.recv)
            strict = False
        if x.kind == "mcall" and x.name in ("iter", "into_iter") and not x.args:
            return True
        return False

    def opaque_call(self, e, code):
        r, t = self.expr(e.recv, code)
        m = OPAQUE[t.name]["methods"].get(e.name)
        if m is None:
            self.err("method `.%s` of `%s` has no meaning in RsSem.lean" % (e.name, t.name), e)
        if len(m["args"]) != len(e.args):
            self.err("`%s::%s` called with %d arguments" % (t.name, e.name, len(e.args)), e)
        parts = []
        for a, at in zip(e.args, m["args"]):
            want = self.ty_of_text(at)
            if isinstance(want, TSeq) and self.is_iter_chain(a):
                sv, st_, _ = self.loop_source(a, code, e)
                sv, st = sv, TSeq(st_)
            else:
                sv, st = self.expr(a, code, want)
            if st != want:
                self.err("argument of `%s::%s` has type %r, expected %r" % (t.name, e.name, st, want), a)
            parts.append(atom(sv))
        txt = "%s %s%s" % (m["lean"], atom(r), "".join(" " + p for p in parts))
        if m.get("mut"):
            v = self.container(e.recv, e)
            if v is None:
                self.err("`.%s` on a `%s` that is not held in a variable or field" % (e.name, t.name), e)
            code.let(v.lean, txt)
            return "()", TUnit()
        return txt, self.ty_of_text(m["ret"])

    def closure_fn(self, cl, param_tys, kind, expected):
        """a closure as a named helper `<fn>_<kind><k>`: (lean text of the partially applied helper, result type)"""
        key = "n_cl_" + kind
        setattr(self, key, getattr(self, key, 0) + 1)
        name = "%s_%s%d" % (self.lean_fn, kind, getattr(self, key))
        if len(cl.params) != len(param_tys):
            self.err("closure with %d parameters" % len(cl.params), cl)
        names = []
        for q in cl.params:
            names += self.pat_names_x(q)
        if jumps(cl.body) or self.assigned(cl.body):
            self.err("closure that assigns outer variables or jumps", cl)
        caps = self.captured(cl.body, [], names)
        saved_scopes, saved_tail = self.scopes, self.tail_expected
        self.scopes = [dict((v.rust, Var(v.rust, v.lean, v.ty)) for v in caps), {}]
        self.loop_depth += 1
        try:
            pats = [self.lean_pat(q, qt, cl) for q, qt in zip(cl.params, param_tys)]
            body = Code()
            r, rt = self.block_value(cl.body, body, expected)
            body.final = ("pure", r)
        finally:
            self.scopes, self.tail_expected = saved_scopes, saved_tail
            self.loop_depth -= 1
        lines = ["/-- the closure of `.%s(…)` (line %d) -/" % (kind, self.src.line_of(cl.pos)),
                 "%s : %s → Res %s" % (self.helper_header(name, caps), " → ".join(paren_ty(t.lean()) for t in param_tys),
                                      paren_ty(rt.lean())),
                 "  | %s => do" % ", ".join(pats)]
        rs.emit_code(body, 4, lines)
        self.helpers.append("\n".join(lines))
        return name + self.abs_args() + "".join(" " + v.lean for v in caps), rt

    def abs_call(self, key, e, code):
        f = self.absfns[key]
        if len(f["args"]) != len(e.args):
            self.err("`%s` called with %d arguments, the spec says %d" % (key, len(e.args), len(f["args"])), e)
        parts = []
        for a, at in zip(e.args, f["args"]):
            want = self.ty_of_text(at)
            s, t = self.expr(a, code, want)
            if t != want:
                self.err("argument of `%s` has type %r, the spec says %r" % (key, t, want), a)
            parts.append(atom(s))
        txt = f["lean"] + "".join(" " + p for p in parts)
        rt = self.ty_of_text(f["ret"])
        if f.get("monadic"):
            t = self.tmp()
            code.bind(t, ("call", txt))
            return t, rt
        return txt, rt

    def callee_abs(self, f):
        """abstract parameters of a translated sibling: its own list (`abs=[…]` in the spec) or, by default, the caller's"""
        if "abs" in f:
            return "".join(" " + a for a in f["abs"])
        return self.abs_args()

    def self_call(self, e, code, expected):
        """`self.method(args)` declared in the spec: a translated sibling function; the fields it writes come back"""
        f = self.self_calls.get(e.name)
        if f is None:
            self.err("call of `self.%s` (not declared in the translation spec)" % e.name, e)
        if len(f["args"]) != len(e.args):
            self.err("`self.%s` called with %d arguments, the spec says %d" % (e.name, len(e.args), len(f["args"])), e)
        parts = [self.lookup(a, e).lean for a in f["self_args"]]
        for a, at in zip(e.args, f["args"]):
            want = self.ty_of_text(at)
            s, t = self.expr(a, code, want)
            if t != want:
                self.err("argument of `self.%s` has type %r, the spec says %r" % (e.name, t, want), a)
            parts.append(atom(s))
        outs = [self.lookup(w, e).lean for w in f.get("writes", [])]
        rt = self.ty_of_text(f["ret"]) if f.get("ret") else TUnit()
        if isinstance(rt, TUnit):
            code.bind(tuple_pat(outs), ("call", f["lean"] + self.callee_abs(f) + "".join(" " + p for p in parts)))
            return "()", rt
        t = self.tmp()
        code.bind(tuple_pat(outs + [t]), ("call", f["lean"] + self.callee_abs(f) + "".join(" " + p for p in parts)))
        return t, rt

    # ---------------------------------------------------------------- match
    def opt_arms(self, e):
        """(name bound by `Some`, body of Some, body of None) for a two-armed match on an Option"""
        some = none = None
        for pats, body in e.arms:
            if len(pats) != 1:
                return None
            p = pats[0]
            if p.kind == "pctor" and p.name == "Some" and len(p.items) == 1 and p.items[0].kind == "pid":
                some = (p.items[0], body)
            elif p.kind == "pid" and p.name in ("None", "_"):
                none = body
            else:
                return None
        if some is None or none is None or len(e.arms) != 2:
            return None
        return some[0], some[1], none

    def match_cond(self, e, code):
        """for a `match` on literals: [(lean condition or None for `_`, body)]"""
        s, t = self.expr(e.scrut, code)
        if not isinstance(t, TInt):
            self.err("`match` on a value of type %r (only `Option`s and integers)" % (t,), e)
        if not re.fullmatch(r"[\w.']+", s):
            tv = self.tmp()
            code.let(tv, s)
            s = tv
        arms = []
        for idx, (pats, body) in enumerate(e.arms):
            if len(pats) == 1 and pats[0].kind == "pid" and pats[0].name == "_":
                if idx != len(e.arms) - 1:
                    self.err("`_` arm that is not the last one", body)
                arms.append((None, body))
                continue
            conds = []
            for p in pats:
                if p.kind != "lit":
                    self.err("`match` pattern other than a literal, `_`, `Some(x)`, `None`", p)
                v, vt = self.expr(p, Code(), t)
                conds.append("%s == %s" % (s, v))
            arms.append((" || ".join(conds), body))
        if arms[-1][0] is not None:
            self.err("`match` on an integer without a final `_` arm", e)
        return arms

    def match_expr(self, e, code, expected):
        oa = self.opt_arms(e)
        if oa is not None:
            p, sb, nb = oa
            s, t = self.expr(e.scrut, code)
            if not isinstance(t, TOpt):
                self.err("`match` with `Some`/`None` arms on %r" % (t,), e)
            self.scopes.append({})
            v = self.declare(p.name, t.elem, e, mutable=False, nested_ok=True)
            c1 = Code()
            r1 = self.block_value(sb, c1, expected)
            self.scopes.pop()
            c2 = Code()
            r2 = self.block_value(nb, c2, expected if r1[1] is None else r1[1])
            if r1[1] != r2[1]:
                self.err("`match` arms of type %r and %r" % (r1[1], r2[1]), e)
            vs = self.outer_vars(self.assigned(e), e)
            c1.final = ("pure", tuple_val([x.lean for x in vs] + [r1[0]]))
            c2.final = ("pure", tuple_val([x.lean for x in vs] + [r2[0]]))
            t_ = self.tmp()
            code.bind(tuple_pat([x.lean for x in vs] + [t_]), ("if", "let some %s := %s" % (v.lean, s), c1, c2))
            return t_, r1[1]
        arms = self.match_cond(e, code)
        vs = self.outer_vars(self.assigned(e), e)
        results, ty = [], None
        for c, body in arms:
            sub = Code()
            r = self.block_value(body, sub, expected if ty is None else ty)
            ty = ty or r[1]
            if r[1] != ty:
                self.err("`match` arms of type %r and %r" % (ty, r[1]), e)
            sub.final = ("pure", tuple_val([x.lean for x in vs] + [r[0]]))
            results.append((c, sub))
        if len(results) < 2:
            self.err("`match` with a single arm", e)
        m = results[-1][1]
        for c, sub in reversed(results[:-1]):
            nxt = Code()
            nxt.final = ("if", c, sub, m)
            m = nxt
        t_ = self.tmp()
        code.bind(tuple_pat([x.lean for x in vs] + [t_]), m.final)
        return t_, ty

    def block_value(self, b, code, expected):
        """statements of `b` into `code`; (lean text, type) of its value (`()` when it has none)"""
        saved = self.tail_expected
        self.tail_expected = expected
        try:
            r = self.block(b, code, False)
        finally:
            self.tail_expected = saved
        return r if r is not None else ("()", TUnit())

    # ---------------------------------------------------------------- statements
    def stmt(self, s, code, last):
        k = s.kind
        if k == "letdecl":
            t = self.ty(s.ty)
            v = self.declare(s.name, t, s)
            code.let(v.lean, zero_of(t))
            return
        if k == "matchs":
            _, t = self.match_expr(s.e, code, None)
            return
        if k == "blocks":
            # `{ … }` as a statement: its `let`s are local, assignments to outer variables stay (same Lean names)
            self.block(N("block", s.b.pos, stmts=self.stmts_of(s.b), tail=None), code, False)
            return
        if k in ("break", "continue"):
            self.err("`%s` in a position the continuation-style translation does not reach (e.g. inside a nested `match`)" % k, s)
        if k == "let" and s.pat.kind == "pid" and s.pat.name in getattr(self, "alias", {}):
            tgt = self.lookup(self.alias[s.pat.name], s)
            init = strip(s.init)
            if init.kind != "field" or self.self_chain(init) is None or self.self_prefix(init) != (tgt.rust, []):
                self.err("`%s` is bound twice (once as an alias of `%s`)" % (s.pat.name, tgt.rust), s)
            self.scopes[-1][s.pat.name] = tgt
            return
        if k == "let" and s.pat.kind == "ptuple" and strip(s.init).kind != "tuple" and s.ty is None \
                and all(q.kind == "pid" for q in s.pat.items):
            val, t = self.expr(s.init, code, None)
            if not isinstance(t, TTuple) or len(t.items) != len(s.pat.items):
                self.err("tuple `let` of a value of type %r" % (t,), s)
            vs = [self.declare(q.name, qt, s, mutable=q.mut) for q, qt in zip(s.pat.items, t.items)]
            code.let("(" + ", ".join(v.lean for v in vs) + ")", val)
            return
        if k == "let" and s.pat.kind == "pstruct":
            val, t = self.expr(s.init, code, None)
            if not isinstance(t, TRec) or t.name != s.pat.name:
                self.err("`let %s {…}` of a value of type %r" % (s.pat.name, t), s)
            names = [f for f, _ in t.fields]
            if s.pat.fields != names:
                self.err("struct pattern `%s` lists %s, the spec has %s" % (t.name, ",".join(s.pat.fields), ",".join(names)), s)
            if not re.fullmatch(r"[\w.']+", val):
                tv = self.tmp()
                code.let(tv, val)
                val = tv
            for i, (f, ft) in enumerate(t.fields):
                v = self.declare(f, ft, s, mutable=False)
                code.let(v.lean, proj(val, i, len(names)))
            return
        return rs.FnTranslator.stmt(self, s, code, last)

    def assign(self, s, code):
        lhs = s.lhs
        while lhs.kind == "paren":
            lhs = lhs.e
        # `v[i].f = e`, `v[i].f op= e`: rebuild the record
        if lhs.kind == "field" and self.self_chain(lhs) is None and strip(lhs.e).kind == "index":
            ix = strip(lhs.e)
            root = self._lhs_root(ix.base)
            v = self.lookup(root, lhs)
            if strip(ix.base).kind not in ("var", "field") or not isinstance(v.ty, TSeq) or not isinstance(v.ty.elem, TRec):
                self.err("assignment to a field of a nested element", s)
            rec = v.ty.elem
            names = [f for f, _ in rec.fields]
            if lhs.name not in names:
                self.err("struct `%s` has no field `%s` in the translation spec" % (rec.name, lhs.name), s)
            fi = names.index(lhs.name)
            rhs = s.rhs if s.op is None else N("bin", s.pos, op=s.op, l=lhs, r=s.rhs)
            val, t = self.expr(rhs, code, rec.fields[fi][1])
            if t != rec.fields[fi][1]:
                self.err("assignment of %r to `.%s` : %r" % (t, lhs.name, rec.fields[fi][1]), s)
            i, it = self.expr(ix.idx, code, TInt("usize"))
            old = self.tmp()
            code.bind(old, ("call", "Rs.idx %s %s" % (atom(v.lean), atom(i))))
            new = "(" + ", ".join(atom(val) if j == fi else proj(old, j, len(names)) for j in range(len(names))) + ")"
            code.bind(v.lean, ("call", "Rs.setIdx %s %s %s" % (atom(v.lean), atom(i), new)))
            return
        if lhs.kind == "field" and self.self_chain(lhs) is not None and self.self_prefix(lhs)[1]:
            self.err("assignment to a field of a struct-valued `self` field", s)
        return rs.FnTranslator.assign(self, s, code)

    def abs_method_key(self, e):
        """`self.f.<method>(closure)` where the spec reads some (method, closure text) pairs on the field `self.f` as an
        abstract function (`abs_methods={"self.f": {lean, ty, alts=[(method, closure), …]}}`)"""
        if e.kind == "mcall" and strip(e.recv).kind == "field" and self.self_chain(strip(e.recv)) is not None:
            key = "self." + ".".join(self.self_chain(strip(e.recv)))
            f = getattr(self, "abs_methods", {}).get(key)
            if f is not None and e.name in [m for m, _ in f["alts"]]:
                return key
        return None

    def expr_stmt(self, e, code):
        key = self.abs_method_key(e)
        if key is not None:
            f = self.abs_methods[key]
            if len(e.args) != 1 or e.args[0].kind != "closure":
                self.err("`%s.%s` without its closure" % (key, e.name), e)
            got = "".join(self.body_text[e.args[0].pos - self.body_pos:].split())
            okc = [c for m, c in f["alts"] if m == e.name and got.startswith("".join(c.split()) + ")")]
            if not okc:
                self.err("`%s.%s(…)`: the closure is none of %s (method and closure are the contract of `%s`)"
                         % (key, e.name, " / ".join("`%s`" % c for m, c in f["alts"] if m == e.name), f["lean"]), e.args[0])
            v = self.container(e.recv, e)
            if v is None or v.ty != self.ty_of_text(f["ty"]):
                self.err("`%s` has another type than the spec says" % key, e)
            code.let(v.lean, "%s %s" % (f["lean"], atom(v.lean)))
            return
        if e.kind == "call" and "::".join(e.path) in self.mut_calls:
            f = self.mut_calls["::".join(e.path)]
            if len(e.args) != len(f["args"]):
                self.err("`%s` called with %d arguments, the spec says %d" % ("::".join(e.path), len(e.args), len(f["args"])), e)
            parts, target = [], None
            for a, at in zip(e.args, f["args"]):
                if at.startswith("closure:"):
                    # the closure is part of the contract of the abstract function: its text is pinned
                    got = " ".join(self.body_text[a.pos - self.body_pos:].split())
                    if a.kind != "closure" or not got.replace(" ", "").startswith(at[len("closure:"):].replace(" ", "") + ")"):
                        self.err("the closure passed to `%s` is no longer `%s`" % ("::".join(e.path), at[len("closure:"):]), a)
                    continue
                want = self.ty_of_text(at)
                if at.replace(" ", "").startswith("&mut"):
                    target = self.container(a, e)
                    if target is None:
                        self.err("`&mut` argument of `%s` is not a variable" % "::".join(e.path), a)
                sv, st_ = self.expr(a, code, want)
                if st_ != want:
                    self.err("argument of `%s` has type %r, the spec says %r" % ("::".join(e.path), st_, want), a)
                parts.append(atom(sv))
            if f["lean"] not in self.used_abs:
                self.used_abs.append(f["lean"])
            code.bind(target.lean if target is not None else "_", ("call", f["lean"] + "".join(" " + p_ for p_ in parts)))
            return
        if e.kind == "mcall":
            recv = strip(e.recv)
            if recv.kind == "var" and recv.name == "self":
                self.self_call(e, code, None)
                return
            if isinstance(self.peek_type(e.recv), TOpaque):
                self.opaque_call(e, code)
                return
            if recv.kind == "var" and isinstance(self.peek_type(recv), TRec) \
                    and "%s.%s" % (self.peek_type(recv).name, e.name) in self.struct_calls:
                self.struct_call("%s.%s" % (self.peek_type(recv).name, e.name), e, code)
                return
            if e.name in ("push", "push_back") and len(e.args) == 1 and recv.kind == "index" and recv.idx.kind != "range":
                root = self._lhs_root(recv.base)
                v = self.lookup(root, e)
                if strip(recv.base).kind not in ("var", "field") or not isinstance(v.ty, TSeq) or not isinstance(v.ty.elem, TSeq):
                    self.err("`.%s` on an element of %r" % (e.name, v.ty), e)
                val, t = self.expr(e.args[0], code, v.ty.elem.elem)
                if t != v.ty.elem.elem:
                    self.err("`.%s` of %r onto an element of %r" % (e.name, t, v.ty), e)
                i, it = self.expr(recv.idx, code, TInt("usize"))
                if it != TInt("usize"):
                    self.err("index of type %r" % (it,), recv.idx)
                old = self.tmp()
                code.bind(old, ("call", "Rs.idx %s %s" % (atom(v.lean), atom(i))))
                code.bind(v.lean, ("call", "Rs.setIdx %s %s (%s ++ [%s])" % (atom(v.lean), atom(i), old, val)))
                return
            if e.name == "push_back" and len(e.args) == 1:
                return rs.FnTranslator.expr_stmt(self, N("mcall", e.pos, recv=e.recv, name="push", args=e.args), code)
            if e.name in ("pop_front", "next", "next_back", "pop_back") and not e.args:
                v = self.container(e.recv, e)   # the value is discarded, the container is updated
                if v is None or not isinstance(v.ty, TSeq):
                    self.err("`.%s()` on something other than a sequence / iterator held in a variable or field" % e.name, e)
                code.let(v.lean, "%s.drop 1" % v.lean if e.name in ("pop_front", "next") else "%s.dropLast" % v.lean)
                return
            if e.name == "clear" and not e.args:
                v = self.container(e.recv, e)
                if v is None or not isinstance(v.ty, TSeq):
                    self.err("`.clear()` on something other than a sequence held in a variable or field", e)
                code.let(v.lean, "[]")
                return
        if e.kind in ("if", "match"):
            self.err("`%s` expression used as a statement with `;` inside an expression" % e.kind, e)
        return rs.FnTranslator.expr_stmt(self, e, code)

    def stmts_of(self, b):
        """the statements of a block used for its effects (a trailing `if` / `match` is a statement)"""
        if b is None:
            return []
        if b.tail is None:
            return list(b.stmts)
        if b.tail.kind == "if":
            return list(b.stmts) + [N("ifs", b.tail.pos, e=b.tail)]
        if b.tail.kind == "match":
            return list(b.stmts) + [N("matchs", b.tail.pos, e=b.tail)]
        self.err("value of the block is discarded", b.tail)

    def unit_block(self, b):
        if b.tail is not None and b.tail.kind == "match":
            return N("block", b.pos, stmts=self.stmts_of(b), tail=None)
        return rs.FnTranslator.unit_block(self, b)

    # ---------------------------------------------------------------- loops
    def loop_source(self, it, code, s):
        """→ (lean list text, element type, by_ref variable or None).  Adapters are applied on the list."""
        it = strip(it)
        if it.kind == "mcall" and not it.args and it.name in ("iter", "into_iter"):
            if isinstance(self.peek_type(it.recv), TOpaque):
                l, t = self.opaque_call(N("mcall", it.pos, recv=it.recv, name="iter", args=[]), code)
                return l, t.elem, None
            return self.loop_source(it.recv, code, s)
        if it.kind == "mcall" and len(it.args) == 1 and it.name == "map" and it.args[0].kind == "closure":
            l, t, br = self.loop_source(it.recv, code, s)
            if br is not None:
                self.err("`.by_ref().map(…)`", it)
            f, rt = self.closure_fn(it.args[0], [t], "map", None)
            tv = self.tmp()
            code.bind(tv, ("call", "%s.mapM %s" % (atom(l), atom(f))))
            return tv, rt, None
        if it.kind == "mcall" and not it.args and it.name == "by_ref":
            v = self.container(it.recv, it)
            if v is None or not isinstance(v.ty, TSeq):
                self.err("`.by_ref()` on something other than an iterator held in a variable or field", it)
            return v.lean, v.ty.elem, v
        if it.kind == "mcall" and not it.args and it.name == "enumerate":
            l, t, br = self.loop_source(it.recv, code, s)
            if br is not None:
                self.err("`.by_ref().enumerate()`", it)
            return "%s.zipIdx" % atom(l), TEnum([TInt("usize"), t]), None
        if it.kind == "mcall" and not it.args and it.name == "rev":
            l, t, br = self.loop_source(it.recv, code, s)
            if br is not None:
                self.err("`.by_ref().rev()`", it)
            return "%s.reverse" % atom(l), t, None
        if it.kind == "mcall" and len(it.args) == 1 and it.name in ("take", "skip"):
            l, t, br = self.loop_source(it.recv, code, s)
            if br is not None:
                self.err("`.by_ref().%s(n)`" % it.name, it)
            n, nt = self.expr(it.args[0], code, TInt("usize"))
            if nt != TInt("usize"):
                self.err("`.%s(%r)`" % (it.name, nt), it)
            return "%s.%s %s" % (atom(l), "take" if it.name == "take" else "drop", atom(n)), t, None
        if it.kind == "mcall" and len(it.args) == 1 and it.name == "step_by" and strip(it.recv).kind == "range":
            r = strip(it.recv)
            if r.lo is None or r.hi is None or r.incl:
                self.err("`.step_by` on a range without both bounds / an inclusive range", it)
            if self.is_lit(r.lo) and not self.is_lit(r.hi):
                hi, ht = self.expr(r.hi, code, None)
                lo, lt = self.expr(r.lo, code, ht)
            else:
                lo, lt = self.expr(r.lo, code, None if not self.is_lit(r.lo) else TInt("usize"))
                hi, ht = self.expr(r.hi, code, lt)
            n, nt = self.expr(it.args[0], code, TInt("usize"))
            if lt != TInt("usize") or ht != lt or nt != lt:
                self.err("`(%r..%r).step_by(%r)`" % (lt, ht, nt), it)
            tv = self.tmp()
            code.bind(tv, ("call", "Rs.rangeStepBy %s %s %s" % (atom(lo), atom(hi), atom(n))))
            return tv, lt, None
        if it.kind == "mcall" and len(it.args) == 1 and it.name == "step_by":
            l, t, br = self.loop_source(it.recv, code, s)
            if br is not None:
                self.err("`.by_ref().step_by(n)`", it)
            n, nt = self.expr(it.args[0], code, TInt("usize"))
            if nt != TInt("usize"):
                self.err("`.step_by(%r)`" % (nt,), it)
            tv = self.tmp()
            code.bind(tv, ("call", "Rs.stepBy %s %s" % (atom(l), atom(n))))
            return tv, t, None
        if it.kind == "range":
            if it.lo is None or it.hi is None:
                self.err("range without both bounds as a loop source", s)
            if self.is_lit(it.lo) and not self.is_lit(it.hi):
                hi, ht = self.expr(it.hi, code, None)
                lo, lt = self.expr(it.lo, code, ht)
            else:
                lo, lt = self.expr(it.lo, code, None if not self.is_lit(it.lo) else TInt("usize"))
                hi, ht = self.expr(it.hi, code, lt)
            if lt != ht or not isinstance(lt, TInt) or lt.signed:
                self.err("range bounds of type %r and %r" % (lt, ht), s)
            if it.incl:
                return "List.range' %s (%s + 1 - %s)" % (atom(lo), atom(hi), atom(lo)), lt, None
            return "List.range' %s (%s - %s)" % (atom(lo), atom(hi), atom(lo)), lt, None
        l, t = self.expr(it, code)
        if not isinstance(t, TSeq):
            self.err("`for` over a value of type %r" % (t,), s)
        return l, t.elem, None

    def lean_pat(self, p, t, s):
        """declare the variables of loop pattern `p` against element type `t`; returns the lean pattern text"""
        if p.kind == "pid":
            v = self.declare(p.name, t, s, mutable=False, nested_ok=True)
            return v.lean
        if p.kind == "ptuple":
            # `enumerate` yields (index, item) in Rust; `zipIdx` yields (item, index)
            if not isinstance(t, TTuple) or len(t.items) != len(p.items):
                self.err("loop pattern does not fit the element type %r" % (t,), p)
            return "(" + ", ".join(self.lean_pat(q, qt, s) for q, qt in zip(p.items, t.items)) + ")"
        self.err("loop pattern", p)

    def for_(self, s, code):
        js = jumps(s.body)
        it = strip(s.iter)
        plain_src = True
        x = it
        while x.kind == "mcall" and x.name in ("iter", "into_iter", "rev", "enumerate", "iter_mut") and not x.args:
            x = strip(x.recv)
        if not (x.kind in ("range", "var") or (x.kind == "field" and self.self_chain(x) is not None and not self.self_prefix(x)[1])
                or (x.kind == "index" and x.idx.kind == "range")):
            plain_src = False
        if not js and plain_src:
            return rs.FnTranslator.for_(self, s, code)
        if "return" in js:
            self.err("`return` inside a loop that is not a statement of the function body itself", s)
        self.cf_for(s, code, js)

    def cf_for(self, s, code, js, fn_level=False):
        """`for` loop as a recursive helper over the list of items (see the module comment).  Returns the lean names
        bound by the call: (option result or None, state variables)"""
        self.n_for += 1
        k = self.n_for
        name = "%s_for%d" % (self.lean_fn, k)
        lst, elem_t, byref = self.loop_source(s.iter, code, s)
        if isinstance(elem_t, TEnum) and not (s.pat.kind == "ptuple" and len(s.pat.items) == 2):
            self.err("pattern of an `.enumerate()` loop must be `(i, x)`", s.pat)
        has_ret = "return" in js
        assigned = self.assigned(N("for", s.pos, pat=s.pat, iter=s.iter, body=s.body))
        if byref is not None:
            assigned = [a for a in assigned if a != byref.rust]
        state = self.outer_vars(assigned, s)
        state_names = [v.rust for v in state]
        loop_names = self.pat_names_x(s.pat)
        caps = self.captured(s.body, state_names, loop_names)
        if byref is not None and byref in caps:
            self.err("the body of a `for … in %s.by_ref()` loop reads the iterator itself" % byref.rust, s)
        saved_scopes, saved_tail = self.scopes, self.tail_expected
        self.tail_expected = None
        self.scopes = [dict((v.rust, Var(v.rust, v.lean, v.ty)) for v in caps + state)]
        for nm in loop_names:
            for sc in saved_scopes:
                if nm in sc and nm != "_" and not nm.startswith("self."):
                    self.err("loop variable `%s` shadows a variable of an enclosing block (not translated)" % nm, s)
        self.scopes.append({})
        # `enumerate()` items are (index, item) in Rust and (item, index) in `zipIdx`
        pat = s.pat
        pt = elem_t
        if isinstance(elem_t, TEnum) and pat.kind == "ptuple" and len(pat.items) == 2:
            pat = N("ptuple", pat.pos, items=[pat.items[1], pat.items[0]])
            pt = TTuple([elem_t.items[1], elem_t.items[0]])
        lpat = self.lean_pat(pat, pt, s)
        self.loop_depth += 1
        st_val = tuple_val([v.lean for v in state])
        rest = "it_rest"
        call = "%s%s%s %s %s" % (name, self.abs_args(), "".join(" " + v.lean for v in caps), rest, st_val)

        def result(opt, remaining):
            parts = []
            if has_ret:
                parts.append(opt)
            if byref is not None:
                parts.append(remaining)
            parts.append(tuple_val([v.lean for v in state]))
            return tuple_val(parts) if len(parts) > 1 else parts[0]
        ctx = dict(k=k, cont=lambda: ("call", call),
                   brk=lambda: ("pure", result("none", rest)),
                   ret=lambda v: ("pure", result("some " + atom(v), rest)),
                   hole=self.holes.get("for%d" % k))
        self.cf.append(ctx)
        try:
            body = Code()
            self.cf_stmts(self.stmts_of(s.body), body)
        finally:
            self.cf.pop()
            self.scopes, self.tail_expected = saved_scopes, saved_tail
            self.loop_depth -= 1
        st_ty = tuple_ty([v.ty for v in state])
        parts = []
        if has_ret:
            parts.append("Option " + paren_ty(self.ret.lean()))
        if byref is not None:
            parts.append("List " + paren_ty(elem_t.lean()))
        parts.append(paren_ty(st_ty) if len(parts) else st_ty)
        res_ty = " × ".join(parts)
        if isinstance(elem_t, TEnum):
            elem_t = TTuple([elem_t.items[1], elem_t.items[0]])
        head = self.src_text(s, None)
        head = head if head.startswith("for ") else "… " + head + " {…}"       # `iter.for_each(|p| …)`
        lines = ["/-- `%s` (line %d): recursive on the remaining items; `break` / `return` end the recursion -/"
                 % (head, self.src.line_of(s.pos)),
                 "%s : List %s → %s → Res %s" % (self.helper_header(name, caps), paren_ty(elem_t.lean()), paren_ty(st_ty),
                                                   paren_ty(res_ty)),
                 "  | [], %s => pure %s" % (tuple_pat([v.lean for v in state]), atom(result("none", "[]"))),
                 "  | %s :: %s, %s => do" % (lpat, rest, tuple_pat([v.lean for v in state]))]
        rs.emit_code(body, 4, lines)
        self.helpers.append("\n".join(lines))
        outs = []
        r = None
        if has_ret:
            r = self.tmp()
            outs.append(r)
        if byref is not None:
            outs.append(byref.lean)
        outs.append(tuple_pat([v.lean for v in state]))
        code.bind(tuple_pat(outs) if len(outs) > 1 else outs[0],
                  ("call", "%s%s%s %s %s" % (name, self.abs_args(), "".join(" " + v.lean for v in caps), atom(lst), st_val)))
        return r

    def cf_stmts(self, stmts, code):
        """statements of a loop body in continuation style: sets `code.final`"""
        ctx = self.cf[-1]
        for idx, st in enumerate(stmts):
            rest = stmts[idx + 1:]
            if st.kind == "break":
                code.final = ctx["brk"]()
                return
            if st.kind == "continue":
                code.final = ctx["cont"]()
                return
            if st.kind == "return":
                if st.e is None:
                    self.err("`return;` without a value inside a loop", st)
                v, t = self.expr(st.e, code, self.ret)
                if t != self.ret:
                    self.err("`return` of %r, the function returns %r" % (t, self.ret), st)
                code.final = ctx["ret"](v)
                return
            if st.kind == "ifs" and (jumps(st.e) or (ctx["hole"] is not None and ctx["k"] not in self.holes_used)):
                e = st.e
                if ctx["hole"] is not None and ctx["k"] not in self.holes_used:
                    c = self.hole_cond(ctx, e, code)
                else:
                    c, ct = self.expr(e.cond, code, TBool())
                    if not isinstance(ct, TBool):
                        self.err("condition of type %r" % (ct,), e.cond)
                if not jumps(e):
                    self.err("the `if` whose condition is extracted as `%s` no longer ends the loop in one of its branches"
                             % ctx["hole"]["lean"], e)
                branches = []
                for b in (e.then, e.els):
                    sub = Code()
                    self.scopes.append({})
                    try:
                        self.cf_stmts(self.stmts_of(b) + rest, sub)
                    finally:
                        self.scopes.pop()
                    branches.append(sub)
                code.final = ("if", c, branches[0], branches[1])
                return
            if st.kind == "matchs" and jumps(st.e):
                self.err("`break` / `continue` / `return` inside a `match` inside a loop", st)
            self.stmt(st, code, False)
        code.final = ctx["cont"]()

    def hole_cond(self, ctx, e, code):
        """the condition of `e` becomes the separate definition `<fn>_<hole>`; in the loop it is a call of the parameter"""
        h = ctx["hole"]
        self.holes_used.add(ctx["k"])
        vs = []
        for nm, ty in h["args"]:
            v = self.lookup(nm, e)
            want = self.ty_of_text(ty)
            if v.ty != want:
                self.err("hole `%s`: `%s` has type %r, the spec says %r" % (h["lean"], nm, v.ty, want), e)
            vs.append(v)
        saved = self.scopes
        self.scopes = [dict((v.rust, v) for v in vs)]
        try:
            sub = Code()
            try:
                c, ct = self.expr(e.cond, sub, TBool())
            except Unsupported as u:
                if "unknown variable" in u.msg:
                    raise Unsupported("the condition extracted as `%s` may only read %s: %s"
                                      % (h["lean"], ", ".join(nm for nm, _ in h["args"]), u.msg), u.pos)
                raise
            if not isinstance(ct, TBool):
                self.err("condition of type %r" % (ct,), e.cond)
            sub.final = ("pure", c)
        finally:
            self.scopes = saved
        lines = ["/-- the condition `%s` (line %d), a parameter `%s` of the functions below -/"
                 % (self.src_text(e.cond, None), self.src.line_of(e.pos), h["lean"]),
                 "def %s_%s%s : Res Bool := do" % (self.lean_fn, h["lean"], "".join(" (%s : %s)" % (v.lean, v.ty.lean()) for v in vs))]
        rs.emit_code(sub, 2, lines)
        self.helpers.append("\n".join(lines))
        t = self.tmp()
        code.bind(t, ("call", h["lean"] + "".join(" " + v.lean for v in vs)))
        return t

    # ---------------------------------------------------------------- the function body
    def seq(self, stmts, tail_node, code, where):
        if tail_node is not None and tail_node.kind in ("if", "match") and isinstance(self.ret, TUnit):
            # a unit function whose body ends in `if … { … }` without `;`: a statement, not a value
            stmts = list(stmts) + [N("ifs" if tail_node.kind == "if" else "matchs", tail_node.pos, e=tail_node)]
            tail_node = None
        for idx, st in enumerate(stmts):
            if st.kind == "for" and "return" in jumps(st.body):
                r = self.cf_for(st, code, jumps(st.body), fn_level=True)
                v = self.tmp()
                th = Code()
                outs = [self.lookup(x.rust, st).lean for x in self.ret_fields] + [v]
                th.final = ("pure", tuple_val(outs))
                el = Code()
                tys = self.seq(stmts[idx + 1:], tail_node, el, where)
                code.final = ("if", "let some %s := %s" % (v, r), th, el)
                return tys
            if st.kind in ("matchs",) and idx == len(stmts) - 1 and tail_node is None:
                return self.finish(st.e, code, st)
            if st.kind in ("ifs", "tail") and st.e.kind == "if" and st.e.els is None and self.is_panic_block(st.e.then):
                c, ct = self.expr(st.e.cond, code, TBool())
                if not isinstance(ct, TBool):
                    self.err("condition of type %r" % (ct,), st.e.cond)
                th = Code()
                th.final = ("call", "Res.panic")
                el = Code()
                tys = self.seq(stmts[idx + 1:], tail_node, el, where)
                code.final = ("if", c, th, el)
                return tys
            if st.kind in ("for", "while", "return") or (st.kind == "ifs" and st.e.els is None and st.e.then.tail is None
                                                          and st.e.then.stmts and st.e.then.stmts[-1].kind == "return"):
                break
            self.stmt(st, code, False)
        else:
            return self.finish(tail_node, code, where)
        # hand the rest to the base class (early `return` at function level, plain loops) — it calls back into `seq`
        return self.seq_base(stmts[idx:], tail_node, code, where)

    def is_panic_block(self, b):
        xs = list(b.stmts) + ([N("exprs", b.tail.pos, e=b.tail)] if b.tail is not None else [])
        return len(xs) == 1 and xs[0].kind == "exprs" and xs[0].e.kind == "macro" and xs[0].e.name in ("panic", "unreachable")

    def seq_base(self, stmts, tail_node, code, where):
        st = stmts[0]
        if st.kind == "return":
            if len(stmts) != 1 or tail_node is not None:
                self.err("statements after `return`", st)
            return self.finish(st.e, code, st)
        if st.kind == "ifs" and st.e.els is None and st.e.then.tail is None and st.e.then.stmts \
                and st.e.then.stmts[-1].kind == "return":
            e = st.e
            c, ct = self.expr(e.cond, code, TBool())
            if not isinstance(ct, TBool):
                self.err("condition of type %r" % (ct,), e.cond)
            th = Code()
            self.scopes.append({})
            tys1 = self.seq(e.then.stmts, None, th, e.then)
            self.scopes.pop()
            el = Code()
            tys2 = self.seq(stmts[1:], tail_node, el, where)
            if tys1 != tys2:
                self.err("early `return` of type %r, the function returns %r" % (tys1, tys2), st)
            code.final = ("if", c, th, el)
            return tys2
        self.stmt(st, code, False)
        return self.seq(stmts[1:], tail_node, code, where)

    def translate(self, toks):
        self.find_aliases()
        r = rs.FnTranslator.translate(self, toks)
        for key, h in self.holes.items():
            if int(key[3:]) not in self.holes_used:
                self.err("the spec extracts the condition of the first `if` of `for` loop %s as `%s`, but no such loop / `if` "
                         "exists any more" % (key[3:], h["lean"]))
        return r


def restrict(src, f):
    """spec key `after`: the function header is searched only behind the (unique) occurrence of that text — e.g. the
    `impl … for QGrams` line when several impls have a method of the same name.  Positions and line numbers are kept."""
    aft = f.get("after")
    if not aft:
        return src
    toks = [t.text for t in rs.tokenize(aft, 0)[:-1]]
    parts = []
    for i, t in enumerate(toks):
        parts.append(re.escape(t))
        if i + 1 < len(toks):
            a, b = t[-1], toks[i + 1][0]
            parts.append(r"\s+" if (a.isalnum() or a == "_") and (b.isalnum() or b == "_") else r"\s*")
    ms = list(re.finditer("".join(parts), src.code))
    if len(ms) != 1:
        raise Unsupported("expected exactly one occurrence of `%s` (the context the spec names for fn %s), found %d"
                          % (aft, f["name"], len(ms)))

    class View(object):
        pass
    v = View()
    v.__dict__.update(src.__dict__)
    cut = ms[0].end()
    # … and only up to the end of the block (`impl … { … }`) that follows the text
    end = len(src.code)
    b0 = src.code.find("{", cut)
    if b0 >= 0:
        depth = 0
        for i in range(b0, len(src.code)):
            if src.code[i] == "{":
                depth += 1
            elif src.code[i] == "}":
                depth -= 1
                if depth == 0:
                    end = i + 1
                    break
    v.code = re.sub(r"[^\n]", " ", src.code[:cut]) + src.code[cut:end] + re.sub(r"[^\n]", " ", src.code[end:])
    v.line_of = src.line_of
    v.fn_body = lambda rx_, what: type(src).fn_body(v, rx_, what)
    return v


# ================================================================================================== self-test (dialect cf)

SELFTEST_RS = r"""
use std::collections::VecDeque;
pub struct Acc { pending: VecDeque<u32>, total: u32, seq: std::vec::IntoIter<u32> }
impl Acc {
    // first element >= limit (consumed), smaller ones are queued; `None` when the iterator runs dry
    fn pull(&mut self, limit: u32) -> Option<u32> {
        let mut seen: u32;
        for x in self.seq.by_ref() {
            seen = x;
            if seen >= limit {
                return Some(seen);
            }
            self.pending.push_back(x);
            self.total += x;
        }
        None
    }
}
pub fn first_gap(xs: &[u32]) -> usize {
    let mut n = 0;
    for (i, &x) in xs.iter().enumerate() {
        if x as usize != i {
            break;
        }
        n = i + 1;
    }
    n
}
pub fn classify(xs: &[u8]) -> (usize, usize) {
    xs.iter().fold((0usize, 0usize), |(a, b), c| match *c {
        b'a' | b'e' => (a + 1, b),
        _ => (a, b + 1),
    })
}
pub fn head_or(q: &mut VecDeque<u32>, d: u32) -> u32 {
    match q.pop_front() {
        Some(v) => v,
        None => d,
    }
}
"""

SELFTEST_UNIT = dict(
    name="SrcSelfTestCf", props="self-test", file="src/selftest_cf.rs", dialect="cf",
    functions=[
        dict(name="Acc::pull", lean="pull", header="fn pull(&mut self, limit: u32) -> Option<u32>",
             self_fields=[("pending", "VecDeque<u32>"), ("total", "u32"), ("seq", "Iter<u32>")],
             params=[("limit", "u32")], ret="Option<u32>"),
        dict(name="first_gap", lean="firstGap", header="pub fn first_gap(xs: &[u32]) -> usize",
             params=[("xs", "&[u32]")], ret="usize", locals={"n": "usize"}),
        dict(name="classify", lean="classify", header="pub fn classify(xs: &[u8]) -> (usize, usize)",
             params=[("xs", "&[u8]")], ret="(usize, usize)"),
        dict(name="head_or", lean="headOr", header="pub fn head_or(q: &mut VecDeque<u32>, d: u32) -> u32",
             params=[("q", "&mut VecDeque<u32>"), ("d", "u32")], ret="u32"),
    ])

SELFTEST_REFUSED = [
    ("for i in 0..n { while v[i] > 0 { return i; } } n", "fuel|`return` inside a loop"),
    ("let c = |a: usize| a + 1; n", "closure"),
    ("for i in 0..n { match v[i] { 0 => break, _ => continue } } n", "inside a `match`|pattern|`break`"),
    ("let w = v.iter().map(|b| *b as usize).sum::<usize>(); w", "turbofish|`.sum"),
]


def selftest(with_lean, tmp):
    """called by `rs2lean.py --selftest`: translate the snippets above, evaluate them with lean, check the refusals"""
    import os, subprocess
    import gen_tables

    class Refused(Exception):
        pass

    def refuse(msg):
        raise Refused(msg)
    ok = True
    with open(os.path.join(tmp, "src", "selftest_cf.rs"), "w") as f:
        f.write(SELFTEST_RS)
    src = gen_tables.Src(tmp, "src/selftest_cf.rs")
    try:
        text, _ = rs.translate_unit(src, SELFTEST_UNIT, refuse)
        text2, _ = rs.translate_unit(src, SELFTEST_UNIT, refuse)
    except Refused as r:
        print("selftest(cf): refused: %s" % r)
        return False
    if text != text2:
        print("selftest(cf): translation is not deterministic")
        ok = False
    checks = ["#eval pull [] 0 [1, 2, 9, 3] 5   -- ok ([1, 2], 3, [3], some 9)",
              "#eval pull [7] 7 [1, 2] 5   -- ok ([7, 1, 2], 10, [], none)",
              "#eval firstGap [0, 1, 2, 7, 4]   -- ok 3",
              "#eval classify [97, 98, 101, 122]   -- ok (2, 2)",
              "#eval headOr [4, 5] 9   -- ok ([5], 4)", "#eval headOr [] 9   -- ok ([], 9)"]
    lean_text = text.replace("end RbV.Gen.SrcSelfTestCf", "\n".join(checks) + "\nend RbV.Gen.SrcSelfTestCf")
    if with_lean:
        lf = os.path.join(tmp, "SelfTestCf.lean")
        with open(lf, "w") as f:
            f.write(lean_text)
        lean_dir = os.path.join(os.path.dirname(os.path.dirname(os.path.abspath(__file__))), "lean")
        p = subprocess.run(["lake", "env", "lean", lf], cwd=lean_dir, stdout=subprocess.PIPE, stderr=subprocess.STDOUT,
                           text=True, timeout=600)
        print(p.stdout.strip())
        want = ["([1, 2], 3, [3], some 9)", "([7, 1, 2], 10, [], none)", "Res.ok 3", "Res.ok (2, 2)", "([5], 4)", "([], 9)"]
        if p.returncode != 0 or any(w not in p.stdout for w in want):
            print("selftest(cf): the generated Lean does not compile or evaluates differently")
            ok = False
    for body, expect in SELFTEST_REFUSED:
        with open(os.path.join(tmp, "src", "selftest_cf.rs"), "w") as f:
            f.write("fn f(v: &[u8], n: usize) -> usize {\n    %s\n}\n" % body)
        u = dict(name="SrcNegCf", props="self-test", file="src/selftest_cf.rs", dialect="cf",
                 functions=[dict(name="f", lean="f", header="fn f(v: &[u8], n: usize) -> usize",
                                 params=[("v", "&[u8]"), ("n", "usize")], ret="usize")])
        try:
            rs.translate_unit(gen_tables.Src(tmp, "src/selftest_cf.rs"), u, refuse)
            print("selftest(cf): NOT refused: %s" % body)
            ok = False
        except Refused as r:
            if not re.search(expect, str(r)):
                print("selftest(cf): refused for another reason: %s: %s" % (body, r))
                ok = False
    return ok


# ================================================================================================== sub-dialect "io" (builder genio)
#
# Functions with `io=True` in their spec (units with dialect="cf") are translated by `IoFn` below instead of `FnTranslatorX`:
# a small self-contained translator in *continuation style* for code that returns `io::Result<T>`, uses `?`, early
# `return`s anywhere, block expressions, `if let` / `match` on `Option` / `Result` / tuples of them, `&mut` parameters, calls
# of sibling methods with `&mut` arguments, and abstract operations on an opaque receiver (the `BufRead` below an
# `IndexedReader`).  Semantics: lean/RbV/Basic/RsSemIo.lean (docs/notes/GEN.md, "Sub-dialect io").
#
#   * a translated function is  `def f (ops…) (self fields…) (params…) (ghosts…) : Res (Ret × outs…)`; the operations,
#     fields, parameters and outputs are exactly those the spec lists, in that order, whether or not the current text uses
#     them (stable signature: the theorems keep type-checking when a rewrite stops using one of them)
#   * `io::Result<T>` = `Except IoErr T`; `e?` = `match e with | .error x => pure (.error x, outs…) | .ok v => …`; the
#     outputs are returned on every path with their current values
#   * mutation = shadowing `let` with the *same* Lean name; a `let` in a nested block that shadows a live outer variable
#     gets a primed name
#   * an `if` / `if let` / `match` without jumps (`return`, `?`) is a monadic expression that returns (value, outer variables
#     assigned); with jumps the rest of the enclosing block is continued inside the branches that fall through
#   * `while c { … }` = recursive helper `<fn>_while<k>` on fuel (spec `fuel=[…]`, may name a ghost parameter); with jumps in
#     the body it returns `Flow R S`

IO_MUT_METHODS = ("clear", "push", "extend_from_slice", "truncate")


class IoParser(ParserX):
    def if_(self):
        x = self.expect("if")
        if self.at("let"):
            self.next()
            pat = self.pattern()
            self.expect("=")
            e = self.expr(no_struct=True)
            th = self.block()
            el = None
            if self.at("else"):
                self.next()
                if self.at("if"):
                    y = self.peek()
                    el = N("block", y.pos, stmts=[], tail=self.if_())
                else:
                    el = self.block()
            return N("iflet", x.pos, pat=pat, e=e, then=th, els=el)
        self.i -= 1
        return ParserX.if_(self)

    def postfix(self, no_struct):
        e = self.primary(no_struct)
        while True:
            x = self.peek()
            if self.at("."):
                self.next()
                nm = self.next()
                if nm.kind == "num":
                    if not nm.text.isdigit():
                        raise Unsupported("tuple field access `.%s`" % nm.text, nm.pos)
                    e = N("tfield", nm.pos, e=e, i=int(nm.text))
                    continue
                if nm.kind != "id":
                    raise Unsupported("after `.`", nm.pos)
                if self.at("::"):
                    raise Unsupported("turbofish", self.peek().pos)
                if self.at("("):
                    e = N("mcall", nm.pos, recv=e, name=nm.text, args=self.args())
                else:
                    e = N("field", nm.pos, e=e, name=nm.text)
            elif self.at("["):
                self.next()
                i = self.expr()
                self.expect("]")
                e = N("index", x.pos, base=e, idx=i)
            elif self.at("?"):
                self.next()
                e = N("try", x.pos, e=e)
            elif self.at("("):
                raise Unsupported("call of a computed function value", x.pos)
            else:
                return e

    def primary(self, no_struct):
        x = self.peek()
        if x.kind == "op" and x.text == "{":
            return N("blockx", x.pos, b=self.block())
        if x.kind == "id" and self.at("::", 1) and x.text not in rs.WIDTH:
            j, path = self.i + 1, [x.text]
            while self.t[j].kind == "op" and self.t[j].text == "::" and self.t[j + 1].kind == "id":
                path.append(self.t[j + 1].text)
                j += 2
            nxt = self.t[j]
            is_call = nxt.kind == "op" and (nxt.text in ("(", "!", "::") or (nxt.text == "{" and not no_struct))
            if not is_call:
                self.i = j
                return N("path", x.pos, path=path)
        return ParserX.primary(self, no_struct)


def io_has_jump(n):
    found = []

    def f(x):
        if x.kind in ("return", "try", "break", "continue"):
            found.append(x.kind)
        if x.kind == "closure":
            return False
    walk(n, f)
    return bool(found)


def io_effectful(n):
    """can evaluating the expression panic, return, or change a variable?  (conservative)"""
    found = []

    def f(x):
        if x.kind in ("index", "call", "try", "macro", "blockx", "if", "iflet", "match", "assign", "cast"):
            found.append(x.kind)
        elif x.kind == "mcall" and x.name not in ("len", "is_empty", "clone", "is_some", "is_none"):
            found.append(x.kind)
        elif x.kind == "bin" and x.op in ("+", "-", "*", "/", "%", "<<", ">>"):
            found.append(x.kind)
    walk(n, f)
    return bool(found)


def io_paren(s):
    return s if re.fullmatch(r"[\w.'ρσα-ω]+", s) else "(" + s + ")"


def io_lean_ty(t):
    k = t[0]
    if k == "int":
        return "Nat"
    if k == "bool":
        return "Bool"
    if k == "unit":
        return "Unit"
    if k == "list":
        return "List " + io_paren(io_lean_ty(t[1]))
    if k == "opt":
        return "Option " + io_paren(io_lean_ty(t[1]))
    if k == "res":
        return "Except IoErr " + io_paren(io_lean_ty(t[1]))
    if k == "tuple":
        return " × ".join(io_paren(io_lean_ty(x)) if x[0] == "tuple" else io_lean_ty_prod(x) for x in t[1])
    if k in ("struct", "abs"):
        return t[1]
    if k == "ioerr":
        return "IoErr"
    raise Unsupported("no Lean type for %r" % (t,))


def io_lean_ty_prod(t):
    s = io_lean_ty(t)
    return "(" + s + ")" if t[0] in ("res", "opt", "list") and False else s


def io_tuple(xs):
    if not xs:
        return "()"
    if len(xs) == 1:
        return xs[0]
    return "(" + ", ".join(xs) + ")"


def io_ty_eq(a, b):
    if a is None or b is None:
        return True
    if a[0] != b[0]:
        return False
    if a[0] == "int":
        return a[1] is None or b[1] is None or a[1] == b[1] or {a[1], b[1]} == {"u64", "usize"}
    if a[0] in ("list", "opt", "res"):
        return io_ty_eq(a[1], b[1])
    if a[0] == "tuple":
        return len(a[1]) == len(b[1]) and all(io_ty_eq(x, y) for x, y in zip(a[1], b[1]))
    if a[0] in ("struct", "abs"):
        return a[1] == b[1]
    return True


class IoVar:
    def __init__(self, lean, ty, depth, mutable=True):
        self.lean, self.ty, self.depth, self.mutable = lean, ty, depth, mutable


class IoFn:
    def __init__(self, unit, fspec, src, body_text, body_pos):
        self.unit, self.spec, self.src = unit, fspec, src
        self.lean_fn = fspec["lean"]
        self.n_tmp = self.n_while = 0
        self.helpers = []
        self.loop_ctx = []           # stack of dict(state=[rust names]) for loops with exits
        self.depth = 0
        self.memo = {}
        self.structs = unit.get("io_structs", {})
        self.ops = unit.get("io_ops", {})
        self.fn_ops = list(fspec.get("ops", []))
        self.ghosts = list(fspec.get("ghosts", []))          # (lean name, lean type)
        self.fuels = list(fspec.get("fuel", []))
        self.consts = unit.get("io_consts", {})

    # ---------------------------------------------------------------- helpers
    def err(self, msg, node=None):
        raise Unsupported(msg, node.pos if node is not None else None)

    def tmp(self):
        self.n_tmp += 1
        return "t%d" % self.n_tmp

    def parse_ty(self, s):
        toks = rs.tokenize(s.replace(">>", "> >").replace(">>", "> >"), 0)
        t, i = self._pty(toks, 0)
        if toks[i].kind != "eof":
            raise Unsupported("type `%s` in the translation spec" % s)
        return t

    def _pty(self, toks, i):
        t = toks[i]
        if t.text == "&":
            i += 1
            if toks[i].kind == "life":
                i += 1
            if toks[i].text == "mut":
                i += 1
            return self._pty(toks, i)
        if t.text == "[":
            el, i = self._pty(toks, i + 1)
            if toks[i].text != "]":
                raise Unsupported("array type in the translation spec")
            return ("list", el), i + 1
        if t.text == "(":
            i += 1
            items = []
            while toks[i].text != ")":
                x, i = self._pty(toks, i)
                items.append(x)
                if toks[i].text == ",":
                    i += 1
            return (("tuple", items) if items else ("unit",)), i + 1
        if t.kind != "id":
            raise Unsupported("type starting with `%s`" % t.text)
        name = t.text
        i += 1
        while toks[i].text == "::" and toks[i + 1].kind == "id":
            name = toks[i + 1].text
            i += 2
        args = []
        if toks[i].text == "<":
            i += 1
            while toks[i].text != ">":
                if toks[i].kind == "life":
                    i += 1
                else:
                    x, i = self._pty(toks, i)
                    args.append(x)
                if toks[i].text == ",":
                    i += 1
            i += 1
        if name in rs.WIDTH and not args:
            return ("int", name), i
        if name == "bool":
            return ("bool",), i
        if name in ("Vec", "VecDeque") and len(args) == 1:
            return ("list", args[0]), i
        if name == "Option" and len(args) == 1:
            return ("opt", args[0]), i
        if name == "Result" and len(args) == 1:
            return ("res", args[0]), i
        if name in self.structs:
            return ("struct", name), i
        gens = dict(self.unit.get("generics", {}))
        gens.update(self.spec.get("generics", {}))
        if name in gens:
            return ("abs", gens[name]), i
        al = dict(self.unit.get("aliases", {}))
        al.update(self.spec.get("aliases", {}))
        if name in al and not args:
            return self.parse_ty(al[name]), i
        raise Unsupported("type `%s` is not in the translated subset (sub-dialect io)" % name)

    def ast_ty(self, t):
        """type node of the parser → io type"""
        if t.kind == "tref":
            return self.ast_ty(t.inner)
        if t.kind == "tslice":
            return ("list", self.ast_ty(t.elem))
        if t.kind == "ttuple":
            return ("tuple", [self.ast_ty(x) for x in t.items]) if t.items else ("unit",)
        return self.parse_ty(t.name + ("<" + ",".join("_" for _ in t.args) + ">" if False else "")) if not t.args else \
            self._ast_ty_args(t)

    def _ast_ty_args(self, t):
        args = [self.ast_ty(x) for x in t.args]
        if t.name in ("Vec", "VecDeque") and len(args) == 1:
            return ("list", args[0])
        if t.name == "Option" and len(args) == 1:
            return ("opt", args[0])
        self.err("type `%s<…>`" % t.name, t)

    # ---------------------------------------------------------------- environment
    def fresh(self, env, base):
        live = set(v.lean for v in env.values())
        live.update(g for g, _ in self.ghosts)
        live.update(self.fn_ops)
        nm = rs.lean_name(base)
        if nm in ("fuel", "gas", "r", "e") or re.fullmatch(r"t\d+", nm):
            nm += "_"
        while nm in live:
            nm += "'"
        return nm

    def declare(self, env, name, ty, node, mutable=True):
        if name == "_":
            return env, "_"
        env2 = dict(env)
        if name in env and env[name].depth == self.depth and not name.startswith("self."):
            lean = env[name].lean                       # same block: the old binding is dead, reuse the name
            env2.pop(name)
        elif name in env:
            e3 = dict(env)
            lean = self.fresh(e3, name)                 # nested block shadows a live variable
        else:
            lean = self.fresh(env, name)
        env2[name] = IoVar(lean, ty, self.depth, mutable)
        return env2, lean

    def path_of(self, e):
        """`self.a.b` / `x.f` → "self.a.b" / "x.f" (None when the expression is not such a path)"""
        parts = []
        while True:
            if e.kind == "paren":
                e = e.e
            elif e.kind == "un" and e.op in ("&", "*"):
                e = e.e
            elif e.kind == "field":
                parts.append(e.name)
                e = e.e
            elif e.kind == "var":
                parts.append(e.name)
                return ".".join(reversed(parts))
            else:
                return None

    def resolve(self, path, env):
        """longest prefix of the path that is a variable; returns (key, remaining field names) or None"""
        comps = path.split(".")
        for n in range(len(comps), 0, -1):
            key = ".".join(comps[:n])
            if key in env:
                return key, comps[n:]
        return None

    def lvalue_key(self, e, env, node):
        p = self.path_of(e)
        r = self.resolve(p, env) if p else None
        if r is None:
            self.err("assignment target / `&mut` argument is not a variable or a `self` field of the spec", node)
        if r[1]:
            self.err("assignment to the field `%s` of a struct value" % ".".join(r[1]), node)
        return r[0]

    def sibling(self, name):
        for f in self.unit["functions"]:
            if f.get("io") and f["name"].split("::")[-1] == name and name in self.spec.get("siblings", []):
                return f
        return None

    def op_for_method(self, name):
        for o in self.fn_ops:
            d = self.ops.get(o)
            if d and d.get("method") == name:
                return o, d
        return None

    def assigned(self, node, env):
        """keys of `env` that the node may assign (in env order)"""
        out = set()

        def key_of(e):
            p = self.path_of(e)
            r = self.resolve(p, env) if p else None
            return r[0] if r else None

        def f(x):
            if x.kind == "assign":
                k = key_of(x.lhs)
                if k:
                    out.add(k)
            elif x.kind == "mcall":
                rp = self.path_of(x.recv)
                sib = self.sibling(x.name)
                if sib is not None and rp is not None:
                    for o in sib.get("outs", []):
                        if o.startswith("self."):
                            r = self.resolve(rp + o[4:], env)
                            if r and not r[1]:
                                out.add(r[0])
                        else:
                            idx = [p for p, _ in sib["params"]].index(o)
                            if idx < len(x.args):
                                k = key_of(x.args[idx])
                                if k:
                                    out.add(k)
                elif x.name in IO_MUT_METHODS or (self.op_for_method(x.name) and self.op_for_method(x.name)[1].get("mut")):
                    k = key_of(x.recv)
                    if k:
                        out.add(k)
            elif x.kind == "closure":
                return False
        walk(node, f)
        return [k for k in env if k in out]

    def reads(self, node, env):
        out = set()

        def f(x):
            if x.kind in ("var", "field"):
                p = self.path_of(x)
                r = self.resolve(p, env) if p else None
                if r:
                    out.add(r[0])
                    return False
            elif x.kind == "mcall":
                rp = self.path_of(x.recv)
                sib = self.sibling(x.name)
                if sib is not None and rp is not None:
                    for nm, _ in sib.get("self_fields", []):
                        r = self.resolve(rp + "." + nm, env)
                        if r:
                            out.add(r[0])
        walk(node, f)
        return [k for k in env if k in out]

    # ---------------------------------------------------------------- returning
    def ret_tree(self, val, env, node=None):
        outs = []
        for o in self.spec.get("outs", []):
            if o not in env:
                self.err("output `%s` of the spec is not in scope" % o, node)
            outs.append(env[o].lean)
        tup = io_tuple([val] + outs)
        if self.loop_ctx:
            return ("pure", ".ret " + tup)
        return ("pure", tup)

    # ---------------------------------------------------------------- expressions (continuation style)
    def int_width(self, t, node):
        if t is None or t[0] != "int" or t[1] is None:
            self.err("the integer type of this operation cannot be read off the text", node)
        return rs.WIDTH[t[1]]

    def ev_list(self, es, env, k, wants=None):
        wants = wants or [None] * len(es)

        def go(i, env, acc):
            if i == len(es):
                return k(acc, env)
            return self.ev(es[i], env, lambda v, t, e2: go(i + 1, e2, acc + [(v, t)]), wants[i])
        return go(0, env, [])

    def ev(self, e, env, k, want=None):
        """tree for: evaluate `e`, then continue with k(lean text, type, env)"""
        kd = e.kind
        if kd == "paren":
            return self.ev(e.e, env, k, want)
        if kd == "lit":
            t = ("int", e.suf) if e.suf else (want if want is not None and want[0] == "int" else ("int", None))
            return k(str(e.v), t, env)
        if kd == "blit":
            return k("true" if e.v else "false", ("bool",), env)
        if kd == "var" and e.name == "None" and "None" not in env:
            return k("none", want if want is not None and want[0] == "opt" else ("opt", None), env)
        if kd in ("var", "field"):
            p = self.path_of(e)
            if p is not None and p in self.consts and p not in env:
                return k(p, ("int", self.consts[p]), env)
            r = self.resolve(p, env) if p else None
            if r is None:
                if kd == "field":
                    return self.ev(e.e, env, lambda v, t, e2: self.field_of(v, t, e.name, e, e2, k))
                self.err("unknown variable `%s`" % (p or "?"), e)
            key, rest = r
            v, t = env[key].lean, env[key].ty
            for fname in rest:
                v, t = self.field_text(v, t, fname, e)
            return k(v, t, env)
        if kd == "tfield":
            def kt(v, t, e2):
                if t[0] != "tuple" or e.i >= len(t[1]):
                    self.err("`.%d` on %r" % (e.i, t), e)
                return k(proj(v, e.i, len(t[1])), t[1][e.i], e2)
            return self.ev(e.e, env, kt)
        if kd == "un":
            if e.op in ("&", "*"):
                return self.ev(e.e, env, k, want)
            if e.op == "!":
                def kn(v, t, e2):
                    if t[0] != "bool":
                        self.err("`!` on %r" % (t,), e)
                    return k("!" + io_paren(v), t, e2)
                return self.ev(e.e, env, kn, ("bool",))
            self.err("unary `%s`" % e.op, e)
        if kd == "cast":
            target = self.ast_ty(e.ty)

            def kc(v, t, e2):
                if t[0] != "int" or target[0] != "int":
                    self.err("cast `as %r` from %r" % (target, t), e)
                if t[1] is None or rs.WIDTH[target[1]] >= rs.WIDTH[t[1]]:
                    if target[1][0] == "i" or (t[1] or "u")[0] == "i":
                        self.err("cast involving a signed type", e)
                    return k(v, target, e2)
                return k("Rs.cast %d %s" % (rs.WIDTH[target[1]], io_paren(v)), target, e2)
            return self.ev(e.e, env, kc, None)
        if kd == "bin":
            return self.binary(e, env, k, want)
        if kd == "tuple":
            if not e.items:
                return k("()", ("unit",), env)
            ws = want[1] if want is not None and want[0] == "tuple" and len(want[1]) == len(e.items) else None
            return self.ev_list(e.items, env, lambda vs, e2: k(io_tuple([v for v, _ in vs]), ("tuple", [t for _, t in vs]), e2), ws)
        if kd == "index":
            return self.index(e, env, k)
        if kd == "call":
            return self.call(e, env, k, want)
        if kd == "mcall":
            return self.mcall(e, env, k, want)
        if kd == "macro":
            return self.macro(e, env, k)
        if kd == "try":
            if self.ret_ty[0] != "res":
                self.err("`?` in a function that does not return `io::Result`", e)

            def ktry(v, t, e2):
                if t[0] != "res":
                    self.err("`?` on a value of type %r" % (t,), e)
                x, er = self.tmp(), "e"
                err_val = "(Except.error %s : %s)" % (er, io_lean_ty(self.ret_ty))
                return ("match", v, [(".error " + er, self.ret_tree(err_val, e2, e)), (".ok " + x, k(x, t[1], e2))])
            return self.ev(e.e, env, ktry)
        if kd == "blockx":
            return self.block(e.b, env, k, want)
        if kd in ("if", "iflet", "match"):
            return self.branching(e, env, k, want, value=True)
        if kd == "path":
            self.err("path `%s` as a value" % "::".join(e.path), e)
        if kd == "str":
            self.err("string literal as a value", e)
        if kd == "struct":
            return self.struct_lit(e, env, k)
        self.err("expression `%s` (sub-dialect io)" % kd, e)

    def field_text(self, v, t, fname, node):
        if t[0] != "struct":
            self.err("field `.%s` of a value of type %r" % (fname, t), node)
        for fn_, ft in self.structs[t[1]]["fields"]:
            if fn_ == fname:
                return "%s.%s" % (io_paren(v), rs.lean_name(fname)), self.parse_ty(ft)
        self.err("struct `%s` has no translated field `%s`" % (t[1], fname), node)

    def field_of(self, v, t, fname, node, env, k):
        v2, t2 = self.field_text(v, t, fname, node)
        return k(v2, t2, env)

    def binary(self, e, env, k, want):
        op = e.op
        if op in ("&&", "||"):
            if not io_effectful(e.r):
                return self.ev_list([e.l, e.r], env,
                                    lambda vs, e2: k("(%s %s %s)" % (vs[0][0], op, vs[1][0]), ("bool",), e2),
                                    [("bool",), ("bool",)])

            def kl(l, lt, e2):
                short = k("false" if op == "&&" else "true", ("bool",), e2)
                full = self.ev(e.r, e2, k, ("bool",))
                return ("if", l, full, short) if op == "&&" else ("if", l, short, full)
            return self.ev(e.l, env, kl, ("bool",))
        lit_l = strip(e.l).kind == "lit" and not strip(e.l).suf
        first, second = (e.r, e.l) if lit_l else (e.l, e.r)

        def k1(a, at, e2):
            def k2(b, bt, e3):
                l, lt, r, rt = (b, bt, a, at) if lit_l else (a, at, b, bt)
                if not io_ty_eq(lt, rt):
                    self.err("`%s` on %r and %r" % (op, lt, rt), e)
                ty = lt if (lt[0] != "int" or lt[1] is not None) else rt
                if op in ("==", "!="):
                    return k("(%s %s %s)" % (l, op, r), ("bool",), e3)
                if op in ("<", ">", "<=", ">="):
                    if ty[0] != "int" or (ty[1] or "u")[0] == "i":
                        self.err("`%s` on %r" % (op, ty), e)
                    return k("decide (%s %s %s)" % (l, {"<": "<", ">": ">", "<=": "≤", ">=": "≥"}[op], r), ("bool",), e3)
                if ty[0] != "int" or (ty[1] or "u")[0] == "i":
                    self.err("arithmetic `%s` on %r" % (op, ty), e)
                if ty[1] is None:
                    ty = want if want is not None and want[0] == "int" else ty
                t = self.tmp()
                if op == "+":
                    m = "Rs.add %d %s %s" % (self.int_width(ty, e), io_paren(l), io_paren(r))
                elif op == "-":
                    m = "Rs.sub %s %s" % (io_paren(l), io_paren(r))
                elif op == "*":
                    m = "Rs.mul %d %s %s" % (self.int_width(ty, e), io_paren(l), io_paren(r))
                elif op == "/":
                    m = "Rs.div %s %s" % (io_paren(l), io_paren(r))
                elif op == "%":
                    m = "Rs.rem %s %s" % (io_paren(l), io_paren(r))
                else:
                    self.err("operator `%s` (sub-dialect io)" % op, e)
                return ("bind", t, m, k(t, ty, e3))
            return self.ev(second, e2, k2, at if at[0] == "int" else None)
        return self.ev(first, env, k1, want if op in ("+", "-", "*", "/", "%") else None)

    def index(self, e, env, k):
        def kb(b, bt, e2):
            if bt[0] != "list":
                self.err("indexing into a value of type %r" % (bt,), e)
            if e.idx.kind == "range":
                lo, hi = e.idx.lo, e.idx.hi
                if e.idx.incl:
                    self.err("`..=` slice", e)
                bounds = [x for x in (lo, hi) if x is not None]

                def ks(vs, e3):
                    it = iter(vs)
                    l = next(it)[0] if lo is not None else "0"
                    h = next(it)[0] if hi is not None else "%s.length" % io_paren(b)
                    t = self.tmp()
                    return ("bind", t, "Rs.slice %s %s %s" % (io_paren(b), io_paren(l), io_paren(h)), k(t, bt, e3))
                return self.ev_list(bounds, e2, ks, [("int", "usize")] * len(bounds))

            def ki(i, it, e3):
                t = self.tmp()
                return ("bind", t, "Rs.idx %s %s" % (io_paren(b), io_paren(i)), k(t, bt[1], e3))
            return self.ev(e.idx, e2, ki, ("int", "usize"))
        return self.ev(e.base, env, kb)

    def call(self, e, env, k, want):
        path = e.path
        last = path[-1]
        if last in ("min", "max") and len(e.args) == 2 and path[:-1] in ([], ["cmp"], ["std", "cmp"]):
            def km(vs, e2):
                (a, at), (b, bt) = vs
                if at[0] != "int" or bt[0] != "int" or not io_ty_eq(at, bt):
                    self.err("`%s` on %r and %r" % (last, at, bt), e)
                return k("%s %s %s" % (last, io_paren(a), io_paren(b)), at if at[1] is not None else bt, e2)
            w = want if want is not None and want[0] == "int" else None
            return self.ev_list(e.args, env, km, [w, w])
        if path == ["Ok"] and len(e.args) == 1:
            w = want[1] if want is not None and want[0] == "res" else None
            return self.ev(e.args[0], env, lambda v, t, e2: k("(Except.ok %s : Except IoErr %s)" % (io_paren(v), io_paren(io_lean_ty(self.concrete(t, w)))),
                                                             ("res", self.concrete(t, w)), e2), w)
        if path == ["Err"] and len(e.args) == 1:
            def kerr(v, t, e2):
                if want is not None and want[0] == "res":
                    return k("(Except.error %s : %s)" % (io_paren(v), io_lean_ty(want)), want, e2)
                return k("Except.error %s" % io_paren(v), ("res", None), e2)
            return self.ev(e.args[0], env, kerr)
        if path == ["Some"] and len(e.args) == 1:
            w = want[1] if want is not None and want[0] == "opt" else None
            return self.ev(e.args[0], env, lambda v, t, e2: k("some %s" % io_paren(v), ("opt", t), e2), w)
        if len(path) >= 2 and path[-2:] == ["Error", "new"] and len(e.args) == 2:
            kind, msg = e.args
            if kind.kind != "path" or kind.path[-2:-1] != ["ErrorKind"]:
                self.err("`io::Error::new` with a kind that is not `io::ErrorKind::<Name>`", e)
            if msg.kind != "str":
                self.err("`io::Error::new` with a message that is not a string literal", e)
            return k("IoErr.mk \"%s\" %s" % (kind.path[-1], msg.text), ("ioerr",), env)
        if path in (["Vec", "new"],) and not e.args:
            return k("[]", want if want is not None and want[0] == "list" else ("list", None), env)
        if path == ["Vec", "with_capacity"] and len(e.args) == 1:
            return self.ev(e.args[0], env, lambda v, t, e2: k("[]", want if want is not None and want[0] == "list" else ("list", None), e2),
                           ("int", "usize"))
        if len(path) == 2 and path[1] == "from" and path[0] in rs.WIDTH and len(e.args) == 1:
            return self.ev(e.args[0], env, lambda v, t, e2: k(v, ("int", path[0]), e2))
        self.err("call of `%s` (sub-dialect io)" % "::".join(path), e)

    def concrete(self, t, w):
        if t is not None and t[0] == "int" and t[1] is None and w is not None:
            return w
        return t

    def macro(self, e, env, k):
        if e.name == "assert" and e.args:
            def ka(c, ct, e2):
                if ct[0] != "bool":
                    self.err("`assert!` on %r" % (ct,), e)
                return ("bind", "_", "Rs.assert %s" % io_paren(c), k("()", ("unit",), e2))
            return self.ev(e.args[0], env, ka, ("bool",))
        if e.name in ("panic", "unreachable", "unimplemented"):
            return ("call", "Res.panic")
        if e.name in ("debug_assert", "debug_assert_eq"):
            return k("()", ("unit",), env)
        self.err("macro `%s!` (sub-dialect io)" % e.name, e)

    def struct_lit(self, e, env, k):
        name = e.name.split("::")[-1]
        sd = self.structs.get(name)
        if sd is None:
            self.err("struct literal `%s {…}`: not a struct of the spec" % name, e)
        given = dict(e.fields)
        want_names = [f for f, _ in sd["fields"]]
        skip = sd.get("skip", [])
        extra = [f for f in given if f not in want_names and f not in skip]
        if extra or any(f not in given for f in want_names):
            self.err("struct literal `%s` has fields %s, the spec expects %s" % (name, ",".join(given), ",".join(want_names)), e)
        exprs, wants = [], []
        for f, ft in sd["fields"]:
            x = given[f]
            if x.kind == "var" and x.name == "self":
                alias = sd.get("self_alias", {}).get(f)
                if alias is None:
                    self.err("`%s: self` in a struct literal" % f, e)
                x = N("field", x.pos, e=x, name=alias)
            exprs.append(x)
            wants.append(self.parse_ty(ft))
        return self.ev_list(exprs, env, lambda vs, e2: k("{ " + ", ".join("%s := %s" % (rs.lean_name(f), v) for (f, _), (v, _) in zip(sd["fields"], vs)) + " }",
                                                      ("struct", name), e2), wants)

    def mcall(self, e, env, k, want):
        nm = e.name
        rp = self.path_of(e.recv)
        sib = self.sibling(nm)
        if sib is not None and rp is not None:
            return self.sibling_call(e, sib, rp, env, k)
        opm = self.op_for_method(nm)
        if opm is not None:
            return self.op_call(e, opm[0], opm[1], env, k)
        key = (rp or "?") + "." + nm
        av = self.spec.get("abs_vals", {}).get(key)
        if av is not None and not e.args:
            return k(av["lean"], self.parse_ty(av["ty"]), env)
        if nm in ("len", "is_empty") and not e.args:
            def kl(v, t, e2):
                if t[0] != "list":
                    self.err("`.%s()` on %r" % (nm, t), e)
                if nm == "len":
                    return k("%s.length" % io_paren(v), ("int", "usize"), e2)
                return k("%s.isEmpty" % io_paren(v), ("bool",), e2)
            return self.ev(e.recv, env, kl)
        if nm in ("clone", "to_owned", "to_vec", "as_slice", "borrow") and not e.args:
            return self.ev(e.recv, env, k, want)
        if nm == "get" and len(e.args) == 1:
            def kg(vs, e2):
                (v, t), (i, it) = vs
                if t[0] != "list":
                    self.err("`.get(i)` on %r" % (t,), e)
                return k("%s[%s]?" % (io_paren(v), i), ("opt", t[1]), e2)
            return self.ev_list([e.recv, e.args[0]], env, kg, [None, ("int", "usize")])
        if nm in ("is_some", "is_none", "is_ok", "is_err") and not e.args:
            lean = {"is_some": "isSome", "is_none": "isNone", "is_ok": "isOk", "is_err": "isOk"}[nm]
            return self.ev(e.recv, env, lambda v, t, e2: k(("!" if nm == "is_err" else "") + "%s.%s" % (io_paren(v), lean), ("bool",), e2))
        # mutators as expression statements
        if nm in IO_MUT_METHODS or nm == "reserve":
            return self.mutator(e, env, k)
        self.err("method `.%s(…)` is outside the translated subset (sub-dialect io)" % nm, e)

    def mutator(self, e, env, k):
        nm = e.name
        if nm == "reserve":
            return self.ev_list(e.args, env, lambda vs, e2: k("()", ("unit",), e2), [("int", "usize")] * len(e.args))
        key = self.lvalue_key(e.recv, env, e)
        var = env[key]
        if var.ty[0] != "list":
            self.err("`.%s(…)` on %r" % (nm, var.ty), e)

        def upd(text, e2):
            e3 = dict(e2)
            e3[key] = IoVar(var.lean, var.ty, var.depth, var.mutable)
            return ("let", var.lean, text, k("()", ("unit",), e3))
        if nm == "clear" and not e.args:
            return upd("([] : %s)" % io_lean_ty(var.ty), env)
        if nm == "push" and len(e.args) == 1:
            return self.ev(e.args[0], env, lambda v, t, e2: upd("%s ++ [%s]" % (e2[key].lean, v), e2), var.ty[1])
        if nm == "extend_from_slice" and len(e.args) == 1:
            return self.ev(e.args[0], env, lambda v, t, e2: upd("%s ++ %s" % (e2[key].lean, io_paren(v)), e2), var.ty)
        if nm == "truncate" and len(e.args) == 1:
            return self.ev(e.args[0], env, lambda v, t, e2: upd("%s.take %s" % (io_paren(e2[key].lean), io_paren(v)), e2), ("int", "usize"))
        self.err("method `.%s(…)`" % nm, e)

    def op_call(self, e, oname, od, env, k):
        key = self.lvalue_key(e.recv, env, e) if od.get("mut") else None
        args = list(e.args)
        wrap = od.get("wrap")
        if wrap:
            if len(args) != 1 or args[0].kind != "call" or args[0].path[-len(wrap):] != wrap or len(args[0].args) != 1:
                self.err("`.%s(…)`: the argument is not `%s(…)`" % (e.name, "::".join(wrap)), e)
            args = args[0].args
        if len(args) != len(od.get("args", [])):
            self.err("`.%s` called with %d arguments, the spec says %d" % (e.name, len(args), len(od.get("args", []))), e)
        wants = [self.parse_ty(a) for a in od.get("args", [])]
        ret = self.parse_ty(od["ret"]) if od.get("ret") else None

        def kr(r, rt, e1):
            def ka(vs, e2):
                call = "%s %s" % (oname, " ".join([io_paren(e2[key].lean) if key else io_paren(r)] + [io_paren(v) for v, _ in vs]))
                if key is None:
                    return k(call, ret or ("unit",), e2)
                var = e2[key]
                e3 = dict(e2)
                e3[key] = IoVar(var.lean, var.ty, var.depth, var.mutable)
                if ret is None:
                    return ("let", var.lean, call, k("()", ("unit",), e3))
                t = self.tmp()
                return ("let", "(%s, %s)" % (t, var.lean), call, k(t, ret, e3))
            return self.ev_list(args, e1, ka, wants)
        return self.ev(e.recv, env, kr)

    def sibling_call(self, e, sib, rp, env, k):
        params = sib["params"]
        if len(e.args) != len(params):
            self.err("`%s` called with %d arguments, its spec says %d" % (e.name, len(e.args), len(params)), e)
        for o in sib.get("ops", []):
            if o not in self.fn_ops:
                self.err("`%s` needs the abstract operation `%s`, which the spec of this function does not list" % (e.name, o), e)
        for g, _ in sib.get("ghosts", []):
            if g not in [x for x, _ in self.ghosts]:
                self.err("`%s` needs the ghost parameter `%s`" % (e.name, g), e)
        wants = []
        sub = IoFn(self.unit, sib, self.src, "", 0)
        for _, pt in params:
            wants.append(sub.parse_ty(pt))

        def ka(vs, e2):
            selfs = []
            for nm, _ in sib.get("self_fields", []):
                r = self.resolve(rp + "." + nm, e2)
                if r is None or r[1]:
                    self.err("`%s` reads `self.%s`: `%s.%s` is not a field of the spec" % (e.name, nm, rp, nm), e)
                selfs.append(e2[r[0]].lean)
            call = " ".join([sib["lean"]] + list(sib.get("ops", [])) + [io_paren(s) for s in selfs] + [io_paren(v) for v, _ in vs]
                            + [g for g, _ in sib.get("ghosts", [])])
            ret = sub.parse_ty(sib["ret"]) if sib.get("ret") else ("unit",)
            t = self.tmp()
            pats, e3 = [t], dict(e2)
            for o in sib.get("outs", []):
                if o.startswith("self."):
                    r = self.resolve(rp + o[4:], e2)
                    if r is None or r[1]:
                        self.err("`%s` writes `%s`: not a field of the spec here" % (e.name, o), e)
                    key = r[0]
                else:
                    idx = [p for p, _ in params].index(o)
                    key = self.lvalue_key(e.args[idx], e2, e)
                var = e2[key]
                pats.append(var.lean)
                e3[key] = IoVar(var.lean, var.ty, var.depth, var.mutable)
            return ("bind", io_tuple(pats), call, k(t, ret, e3))
        return self.ev_list(e.args, env, ka, wants)

    # ---------------------------------------------------------------- branching
    def pat_lean(self, p, ty, env):
        """pattern → (lean pattern text, env with the binders)"""
        if p.kind == "pid":
            if p.name == "_":
                return "_", env
            if p.name == "None":
                return "none", env
            env2, lean = self.declare(env, p.name, ty, p)
            return lean, env2
        if p.kind == "ptuple":
            if ty is None or ty[0] != "tuple" or len(ty[1]) != len(p.items):
                self.err("tuple pattern against %r" % (ty,), p)
            parts = []
            for x, t in zip(p.items, ty[1]):
                s, env = self.pat_lean(x, t, env)
                parts.append(s)
            return "(" + ", ".join(parts) + ")", env
        if p.kind == "pctor" and len(p.items) == 1:
            ctor = {"Some": ("opt", "some"), "Ok": ("res", ".ok"), "Err": ("res", ".error")}.get(p.name)
            if ctor is None or ty is None or ty[0] != ctor[0]:
                self.err("pattern `%s(…)` against %r" % (p.name, ty), p)
            inner_ty = ("ioerr",) if p.name == "Err" else ty[1]
            s, env = self.pat_lean(p.items[0], inner_ty, env)
            return "%s %s" % (ctor[1], s), env
        self.err("pattern (sub-dialect io)", p)

    def branching(self, e, env, k, want, value):
        """`if`, `if let`, `match` as a statement (value=False) or as an expression"""
        jumpy = io_has_jump(e.then) or (e.els is not None and io_has_jump(e.els)) if e.kind in ("if", "iflet") else \
            any(io_has_jump(b) for _, b in e.arms)
        outer = env
        self_depth = self.depth

        if jumpy:
            kb = k
        else:
            blocks = [e.then] + ([e.els] if e.els is not None else []) if e.kind in ("if", "iflet") else [b for _, b in e.arms]
            A = []
            for b in blocks:
                for a in self.assigned(b, outer):
                    if a not in A:
                        A.append(a)
            A = [a for a in outer if a in A]
            vty = []

            def kb(v, t, e2):
                vty.append(t)
                parts = ([v] if value else []) + [e2[a].lean for a in A]
                return ("pure", io_tuple(parts))

        def arm(block, env_in):
            if block is None:
                return kb("()", ("unit",), env_in)
            return self.block(block, env_in, kb, want)

        if e.kind == "if":
            def kc(c, ct, e2):
                if ct[0] != "bool":
                    self.err("condition of type %r" % (ct,), e.cond)
                return ("if", c, arm(e.then, e2), arm(e.els, e2))
            tree_of = lambda: self.ev(e.cond, env, kc, ("bool",))
        elif e.kind == "iflet":
            def ks(s, st, e2):
                self.depth += 1
                pat, e3 = self.pat_lean(e.pat, st, e2)
                self.depth -= 1
                th = self.block(e.then, e3, lambda v, t, e4: kb(v, t, {kk: e4[kk] for kk in e2}), want)
                return ("match", s, [(pat, th), ("_", arm(e.els, e2))])
            tree_of = lambda: self.ev(e.e, env, ks)
        else:
            def ks(s, st, e2):
                arms = []
                for pats, body in e.arms:
                    if len(pats) != 1:
                        self.err("`|` alternatives in a `match` arm (sub-dialect io)", e)
                    self.depth += 1
                    pat, e3 = self.pat_lean(pats[0], st, e2)
                    self.depth -= 1
                    arms.append((pat, self.block(body, e3, lambda v, t, e4: kb(v, t, {kk: e4[kk] for kk in e2}), want)))
                return ("match", s, arms)
            tree_of = lambda: self.ev(e.scrut, env, ks)

        if jumpy:
            return tree_of()
        tree = tree_of()
        ts = [t for t in vty if t is not None and t != ("unit",)] if value else []
        rty = (ts[0] if ts else ("unit",)) if value else ("unit",)
        if value and rty[0] == "res" and rty[1] is None:
            better = [t for t in ts if t[0] == "res" and t[1] is not None]
            rty = better[0] if better else (want if want is not None else rty)
        env_after = dict(outer)
        for a in A:
            var = outer[a]
            env_after[a] = IoVar(var.lean, var.ty, var.depth, var.mutable)
        pats = []
        vname = None
        if value:
            vname = self.tmp()
            pats.append(vname)
        pats += [outer[a].lean for a in A]
        if not pats:
            if tree[0] == "pure":
                return k("()", ("unit",), env_after)
            return ("bindm", "_", tree, k("()", ("unit",), env_after))
        # pure `if c then a else b`
        if tree[0] == "if" and tree[2][0] == "pure" and tree[3][0] == "pure":
            return ("let", io_tuple(pats), "if %s then %s else %s" % (tree[1], tree[2][1], tree[3][1]),
                    k(vname if value else "()", rty, env_after))
        return ("bindm", io_tuple(pats), tree, k(vname if value else "()", rty, env_after))

    # ---------------------------------------------------------------- blocks and statements
    def block(self, b, env, k, want=None):
        outer_keys = list(env.keys())
        self.depth += 1
        d = self.depth

        def kend(v, t, e2):
            self.depth = d - 1
            return k(v, t, {kk: e2[kk] for kk in outer_keys})
        try:
            return self.stmts(list(b.stmts), b.tail, env, kend, want)
        finally:
            self.depth = d - 1

    def stmts(self, ss, tail, env, k, want=None):
        d = self.depth
        if not ss:
            if tail is None:
                return k("()", ("unit",), env)
            return self.ev(tail, env, k, want)
        s = ss[0]

        def rest(env2):
            self.depth = d
            return self.stmts(ss[1:], tail, env2, k, want)
        return self.stmt(s, env, rest)

    def stmt(self, s, env, rest):
        kd = s.kind
        if kd == "let":
            ann = self.ast_ty(s.ty) if s.ty is not None else None
            if ann is None and s.pat.kind == "pid" and s.pat.name in self.spec.get("locals", {}):
                ann = self.parse_ty(self.spec["locals"][s.pat.name])

            def kl(v, t, e2):
                ty = ann if ann is not None else t
                if ty is not None and ty[0] == "int" and ty[1] is None:
                    self.err("the type of `%s` cannot be read off the text (give it a type in the spec: `locals`)"
                             % ",".join(rs.pat_names(s.pat)), s)
                if s.pat.kind == "pid":
                    e3, lean = self.declare(e2, s.pat.name, ty, s, s.pat.mut if hasattr(s.pat, "mut") else True)
                    if lean == v:
                        return rest(e3)
                    return ("let", lean, v, rest(e3))
                pat, e3 = self.pat_lean(s.pat, ty, e2)
                return ("let", pat, v, rest(e3))
            return self.ev(s.init, env, kl, ann)
        if kd == "letdecl":
            ty = self.ast_ty(s.ty)
            e2, lean = self.declare(env, s.name, ty, s)
            zero = {"int": "0", "bool": "false", "list": "[]", "opt": "none"}.get(ty[0])
            if zero is None:
                self.err("`let %s: …;` without initialiser" % s.name, s)
            return ("let", lean, zero, rest(e2))
        if kd == "assign":
            key = self.lvalue_key(s.lhs, env, s)
            var = env[key]

            def kr(v, t, e2):
                cur = e2[key]
                e3 = dict(e2)
                e3[key] = IoVar(cur.lean, cur.ty, cur.depth, cur.mutable)
                if s.op is None:
                    return ("let", cur.lean, v, rest(e3))
                w = self.int_width(cur.ty, s) if cur.ty[0] == "int" else None
                m = {"+": "Rs.add %s %s %s" % (w, cur.lean, io_paren(v)), "-": "Rs.sub %s %s" % (cur.lean, io_paren(v)),
                     "*": "Rs.mul %s %s %s" % (w, cur.lean, io_paren(v)), "/": "Rs.div %s %s" % (cur.lean, io_paren(v)),
                     "%": "Rs.rem %s %s" % (cur.lean, io_paren(v))}.get(s.op)
                if m is None or cur.ty[0] != "int":
                    self.err("compound assignment `%s=` on %r" % (s.op, cur.ty), s)
                return ("bind", cur.lean, m, rest(e3))
            return self.ev(s.rhs, env, kr, var.ty)
        if kd == "exprs":
            return self.ev(s.e, env, lambda v, t, e2: rest(e2))
        if kd in ("ifs", "matchs"):
            return self.branching(s.e, env, lambda v, t, e2: rest(e2), None, value=False)
        if kd == "tail":
            return self.ev(s.e, env, lambda v, t, e2: rest(e2))
        if kd == "blocks":
            return self.block(s.b, env, lambda v, t, e2: rest(e2))
        if kd == "return":
            if s.e is None:
                return self.ret_tree("()", env, s)
            return self.ev(s.e, env, lambda v, t, e2: self.ret_tree(v, e2, s), self.ret_ty)
        if kd == "while":
            return self.while_(s, env, rest)
        self.err("statement `%s` (sub-dialect io)" % kd, s)

    def while_(self, s, env, rest):
        if self.loop_ctx:
            self.err("nested loops (sub-dialect io)", s)
        jumpy = io_has_jump(s.body) or io_has_jump(s.cond)
        state = self.assigned(s.body, env)
        rd = self.reads(s.cond, env) + self.reads(s.body, env)
        if jumpy:
            rd = rd + [o for o in self.spec.get("outs", [])]      # the outputs are returned from inside the loop
        caps = [kk for kk in env if kk in rd and kk not in state]
        if id(s) in self.memo:
            name, k_idx = self.memo[id(s)]
        else:
            self.n_while += 1
            k_idx = self.n_while
            name = "%s_while%d" % (self.lean_fn, k_idx)
            self.memo[id(s)] = (name, k_idx)
            if k_idx > len(self.fuels):
                self.err("`while` loop %d has no fuel expression in the translation spec" % k_idx, s)
            henv = {kk: env[kk] for kk in env if kk in caps or kk in state}
            ops = "".join(" " + o for o in self.fn_ops)
            cap_args = "".join(" " + henv[c].lean for c in caps)
            st_pats = [henv[x].lean for x in state]
            self.loop_ctx.append(dict(jumpy=jumpy))
            depth0 = self.depth
            try:
                def kc(c, ct, e2):
                    if ct[0] != "bool":
                        self.err("loop condition of type %r" % (ct,), s.cond)

                    def kbody(v, t, e3):
                        return ("call", "%s%s%s gas %s" % (name, ops, cap_args, " ".join(io_paren(e3[x].lean) for x in state)))
                    done = io_tuple([e2[x].lean for x in state])
                    if not jumpy:
                        self.loop_ctx[-1]["plain"] = True
                    return ("if", c, self.block(s.body, e2, kbody),
                            ("pure", (".next " + done) if jumpy else done))
                if not jumpy:
                    # no exits: `return` cannot occur (io_has_jump), so ret_tree is never called inside
                    pass
                tree = self.ev(s.cond, henv, kc, ("bool",))
            finally:
                self.loop_ctx.pop()
                self.depth = depth0
            st_ty = " × ".join(io_paren(io_lean_ty(henv[x].ty)) if henv[x].ty[0] == "tuple" else io_lean_ty(henv[x].ty) for x in state) or "Unit"
            full_ret = self.full_ret_ty()
            rty = "Flow (%s) (%s)" % (full_ret, st_ty) if jumpy else st_ty
            lines = ["def %s%s%s : Nat → %sRes (%s)" % (
                name, self.ops_sig(), "".join(" (%s : %s)" % (henv[c].lean, io_lean_ty(henv[c].ty)) for c in caps),
                "".join(io_paren(io_lean_ty(henv[x].ty)) + " → " for x in state), rty)]
            lines.append("  | 0%s => Res.fuel" % "".join(", _" for _ in state))
            lines.append("  | gas + 1%s => do" % "".join(", " + p for p in st_pats))
            io_emit(tree, 4, lines)
            self.helpers.append("\n".join(lines))
        ops = "".join(" " + o for o in self.fn_ops)
        call = "%s%s%s %s %s" % (name, ops, "".join(" " + env[c].lean for c in caps), io_paren(self.fuels[k_idx - 1]),
                                 " ".join(io_paren(env[x].lean) for x in state))
        e2 = dict(env)
        for x in state:
            var = env[x]
            e2[x] = IoVar(var.lean, var.ty, var.depth, var.mutable)
        pat = io_tuple([env[x].lean for x in state]) if state else "_"
        if not jumpy:
            return ("bind", pat, call, rest(e2))
        r = self.tmp()
        return ("bind", r, call, ("match", r, [(".ret v", ("pure", "v")), (".next " + (pat if state else "_"), rest(e2))]))

    def full_ret_ty(self):
        parts = [io_lean_ty(self.ret_ty)]
        for o in self.spec.get("outs", []):
            parts.append(io_lean_ty(self.env0[o].ty))
        return " × ".join(io_paren(p) if " × " in p else p for p in parts)

    def ops_sig(self):
        return "".join(" (%s : %s)" % (o, self.ops[o]["lean_ty"]) for o in self.fn_ops)

    # ---------------------------------------------------------------- the function
    def translate(self, toks):
        body = IoParser(toks).body()
        sp = self.spec
        env = {}
        params = []
        for ent in sp.get("self_fields", []):
            nm, ty = ent[0], ent[1]
            t = self.parse_ty(ty)
            lean = ent[2] if len(ent) > 2 else self.fresh(env, nm)
            env["self." + nm] = IoVar(lean, t, 0)
            params.append((lean, t))
        for nm, ty in sp["params"]:
            t = self.parse_ty(ty)
            lean = self.fresh(env, nm)
            env[nm] = IoVar(lean, t, 0, ty.replace(" ", "").startswith("&mut") or True)
            params.append((lean, t))
        self.env0 = env
        self.ret_ty = self.parse_ty(sp["ret"]) if sp.get("ret") else ("unit",)
        for o in sp.get("outs", []):
            if o not in env:
                raise Unsupported("output `%s` of the spec is neither a self field nor a parameter" % o)
        self.depth = 0
        tree = self.stmts(list(body.stmts), body.tail, env, lambda v, t, e2: self.final(v, t, e2, body), self.ret_ty)
        sig = "def %s%s%s%s : Res (%s) := do" % (
            self.lean_fn, self.ops_sig(), "".join(" (%s : %s)" % (l, io_lean_ty(t)) for l, t in params),
            "".join(" (%s : %s)" % g for g in self.ghosts), self.full_ret_ty())
        lines = [sig]
        io_emit(tree, 2, lines)
        return self.helpers, "\n".join(lines), [], None

    def final(self, v, t, env, node):
        if not io_ty_eq(t, self.ret_ty):
            self.err("the function ends with a value of type %r, the spec declares %r" % (t, self.ret_ty), node)
        return self.ret_tree(v, env, node)


def io_emit(tree, ind, out):
    pad = " " * ind
    kd = tree[0]
    if kd == "let":
        out.append("%slet %s := %s" % (pad, tree[1], tree[2]))
        io_emit(tree[3], ind, out)
    elif kd == "bind":
        out.append("%slet %s ← %s" % (pad, tree[1], tree[2]))
        io_emit(tree[3], ind, out)
    elif kd == "bindm":
        sub = []
        io_emit(tree[2], ind + 4, sub)
        out.append("%slet %s ←" % (pad, tree[1]))
        if tree[2][0] in ("if", "match"):
            out.extend(sub)
        else:
            out.append("%s  (do" % pad)
            out.extend(sub)
            out[-1] += ")"
        io_emit(tree[3], ind, out)
    elif kd == "if":
        out.append("%sif %s then do" % (pad, tree[1]))
        io_emit(tree[2], ind + 4, out)
        out.append("%s  else do" % pad)
        io_emit(tree[3], ind + 4, out)
    elif kd == "match":
        out.append("%smatch %s with" % (pad, tree[1]))
        for pat, arm in tree[2]:
            out.append("%s| %s => do" % (pad, pat))
            io_emit(arm, ind + 4, out)
    elif kd == "pure":
        out.append("%spure %s" % (pad, atom(tree[1])))
    elif kd == "call":
        out.append(pad + tree[1])
    else:
        raise Unsupported("internal: tree node %r" % (kd,))


def io_unit_preamble(src, unit, fail):
    """Lean text in front of the functions of a unit with io functions: structures of the spec (their Rust declaration is
    pinned: the field list must still be the one the spec states) and constants read from the source"""
    out = []
    for name, sd in unit.get("io_structs", {}).items():
        pin = sd.get("pinned")
        if pin:
            toks = [t.text for t in rs.tokenize(pin, 0)[:-1]]
            parts = []
            for i, t in enumerate(toks):
                parts.append(re.escape(t))
                if i + 1 < len(toks):
                    a, b = t[-1], toks[i + 1][0]
                    parts.append(r"\s+" if (a.isalnum() or a == "_") and (b.isalnum() or b == "_") else r"\s*")
            n = len(re.findall("".join(parts), src.code))
            if n != 1:
                fail("%s: the declaration `%s` the translation spec relies on occurs %d times (fields added, removed or retyped)"
                     % (unit["file"], " ".join(pin.split())[:80], n))
        if sd.get("emit", True):
            tr = IoFn(unit, dict(lean="_", params=[], name="_"), src, "", 0)
            gens = sorted(set(re.findall(r"[ρσ]", " ".join(io_lean_ty(tr.parse_ty(ft)) for _, ft in sd["fields"]))))
            out.append("structure %s%s where" % (name, "".join(" (%s : Type)" % g for g in gens)))
            for f, ft in sd["fields"]:
                out.append("  %s : %s" % (rs.lean_name(f), io_lean_ty(tr.parse_ty(ft))))
            out.append("")
    for name, ty in unit.get("io_consts", {}).items():
        v = src.int_const(name, ty)
        out.append("/-- `const %s: %s` -/" % (name, ty))
        out.append("def %s : Nat := %d" % (name, v))
        out.append("")
    return out
