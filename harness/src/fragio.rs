//! `Fragmenting<R>`: a reader whose `read()` calls return at most the sizes given by a schedule (cyclic), so that
//! every partition of the byte stream into `read()` chunks can be driven from a case line.  Used by C11 and C12.
use std::io::{self, Read, Seek, SeekFrom};

pub struct Fragmenting<R> {
    inner: R,
    sched: Vec<usize>,
    k: usize,
    /// reset the schedule position on every seek (C12: one schedule per request, mirrors the Lean model)
    reset_on_seek: bool,
    pub reads: usize,
}

impl<R> Fragmenting<R> {
    pub fn new(inner: R, sched: Vec<usize>, reset_on_seek: bool) -> Self {
        let sched = if sched.is_empty() { vec![usize::MAX] } else { sched };
        Fragmenting { inner, sched, k: 0, reset_on_seek, reads: 0 }
    }
}

impl<R: Read> Read for Fragmenting<R> {
    fn read(&mut self, buf: &mut [u8]) -> io::Result<usize> {
        if buf.is_empty() {
            return Ok(0);
        }
        let want = self.sched[self.k % self.sched.len()].max(1).min(buf.len());
        self.k += 1;
        self.reads += 1;
        self.inner.read(&mut buf[..want])
    }
}

impl<R: Seek> Seek for Fragmenting<R> {
    fn seek(&mut self, pos: SeekFrom) -> io::Result<u64> {
        if self.reset_on_seek {
            self.k = 0;
        }
        self.inner.seek(pos)
    }
}
