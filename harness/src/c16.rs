//! C16 — partial-order alignment.
//!
//! `c16 <gap>:<xp>:<xs>:<yp>:<ys> <alphabet hex> <k*k score table, row = reference symbol> <reference hex> <step>/<step>/…`
//! step = `<mode>:<query hex>:<bw>:<a|n>`; mode g = global (if bw > 0 a `global_banded(query, bw)` is run first
//! on the same state and its score reported as `b:`), b = global_banded(bw), s = semiglobal, l = local,
//! c = custom (clip penalties of the first token); `a` = `add_to_graph()` afterwards, `n` = align only.
//!
//! Observation: `g:<labels hex>:<edges> c:<consensus hex|PANIC>` for the initial graph, then per step
//! ` | [b:<score>] s:<score> o:<ops> [g:… c:…]` (graph and consensus only after an addition).
//! edges: `u.v.w,…` in petgraph edge-index order (`-` if none); ops: `M` `M<p>.<q>` `D` `D<p>.<q>` `I` `I<p>`
//! `X<r>` `Y<a>.<b>`.  A panic inside one call is recorded in place (`s:PANIC`, `g:PANIC`, `c:PANIC`) and,
//! except for the consensus, ends the history.
use crate::util::*;
use bio::alignment::pairwise::{MatchFunc, Scoring, MIN_SCORE};
use bio::alignment::poa::{Aligner, AlignmentOperation, POAGraph};
use std::panic::{catch_unwind, AssertUnwindSafe};

fn ops_str(ops: &[AlignmentOperation]) -> String {
    let v: Vec<String> = ops
        .iter()
        .map(|o| match o {
            AlignmentOperation::Match(None) => "M".to_string(),
            AlignmentOperation::Match(Some((p, q))) => format!("M{}.{}", p, q),
            AlignmentOperation::Del(None) => "D".to_string(),
            AlignmentOperation::Del(Some((p, q))) => format!("D{}.{}", p, q),
            AlignmentOperation::Ins(None) => "I".to_string(),
            AlignmentOperation::Ins(Some(p)) => format!("I{}", p),
            AlignmentOperation::Xclip(r) => format!("X{}", r),
            AlignmentOperation::Yclip(a, b) => format!("Y{}.{}", a, b),
        })
        .collect();
    join(&v, ",")
}

fn graph_str(g: &POAGraph) -> String {
    let labels: Vec<u8> = g.raw_nodes().iter().map(|n| n.weight).collect();
    let edges: Vec<String> = g
        .raw_edges()
        .iter()
        .map(|e| format!("{}.{}.{}", e.source().index(), e.target().index(), e.weight))
        .collect();
    format!("g:{}:{}", hex(&labels), join(&edges, ","))
}

fn cons_str<F: MatchFunc>(al: &Aligner<F>) -> String {
    match catch_unwind(AssertUnwindSafe(|| al.consensus())) {
        Ok(c) => format!("c:{}", hex(&c)),
        Err(_) => "c:PANIC".to_string(),
    }
}

struct Step {
    mode: char,
    query: Vec<u8>,
    bw: usize,
    add: bool,
}

pub fn exec(toks: &[&str]) -> Result<String, String> {
    if toks.len() != 5 {
        return Err("arity".into());
    }
    let sc: Vec<i32> = parse_list(toks[0], ':')?;
    if sc.len() != 5 || sc.iter().any(|&v| v > 0 || v < MIN_SCORE) {
        return Err("scoring".into());
    }
    let alpha = unhex(toks[1])?;
    let k = alpha.len();
    if k == 0 || k > 8 {
        return Err("alphabet".into());
    }
    for i in 0..k {
        for j in 0..i {
            if alpha[i] == alpha[j] {
                return Err("alphabet repeats".into());
            }
        }
    }
    let table: Vec<i32> = parse_list(toks[2], ',')?;
    if table.len() != k * k || table.iter().any(|v| (*v as i64).abs() > (1 << 30)) {
        return Err("table".into());
    }
    let reference = unhex(toks[3])?;
    if reference.is_empty() || reference.len() > 400 || reference.iter().any(|c| !alpha.contains(c)) {
        return Err("reference".into());
    }
    let mut steps: Vec<Step> = vec![];
    for s in split_list(toks[4], '/') {
        let f: Vec<&str> = s.split(':').collect();
        if f.len() != 4 || f[0].len() != 1 {
            return Err("step".into());
        }
        let mode = f[0].chars().next().unwrap();
        if !"gbslc".contains(mode) {
            return Err("mode".into());
        }
        let query = unhex(f[1])?;
        if query.is_empty() || query.len() > 400 || query.iter().any(|c| !alpha.contains(c)) {
            return Err("query".into());
        }
        let bw: usize = parse(f[2])?;
        if bw > 10_000 || (mode == 'b' && bw == 0) {
            return Err("bandwidth".into());
        }
        let add = match f[3] {
            "a" => true,
            "n" => false,
            _ => return Err("add flag".into()),
        };
        steps.push(Step { mode, query, bw, add });
    }
    if steps.is_empty() || steps.len() > 16 {
        return Err("steps".into());
    }
    // the envelope of the tie: `PoaEnv` of `Thm/C16.lean` (`poa_i32_no_overflow`) together with the sentinel condition of
    // `model_faithful_global_on_linear_graph_is_optimum`: (m + 2n + 1) B < -MIN_SCORE for every step, with B the largest
    // magnitude of a table entry / of the gap score and m an upper bound of the node count (every addition adds at most |query|)
    {
        let b = env_bound(sc[0], &table);
        let mut m_up = reference.len();
        for st in &steps {
            if b > env_max_bound(m_up, st.query.len()) {
                return Err("step outside the envelope (m + 2n + 1) B < -MIN_SCORE".into());
            }
            if st.add {
                m_up += st.query.len();
            }
        }
    }

    let mut idx = [usize::MAX; 256];
    for (i, &c) in alpha.iter().enumerate() {
        idx[c as usize] = i;
    }
    let tab = table.clone();
    let f = move |a: u8, b: u8| -> i32 { tab[idx[a as usize] * k + idx[b as usize]] };
    let mut scoring = Scoring::new(sc[0], 0, f);
    scoring.xclip_prefix = sc[1];
    scoring.xclip_suffix = sc[2];
    scoring.yclip_prefix = sc[3];
    scoring.yclip_suffix = sc[4];

    let mut al = Aligner::new(scoring, &reference);
    let mut out = format!("{} {}", graph_str(al.graph()), cons_str(&al));
    for st in &steps {
        out.push_str(" |");
        if st.mode == 'g' && st.bw > 0 {
            match catch_unwind(AssertUnwindSafe(|| al.global_banded(&st.query, st.bw).alignment().score)) {
                Ok(s) => out.push_str(&format!(" b:{}", s)),
                Err(_) => out.push_str(" b:PANIC"),
            }
        }
        let r = catch_unwind(AssertUnwindSafe(|| {
            match st.mode {
                'g' => al.global(&st.query),
                'b' => al.global_banded(&st.query, st.bw),
                's' => al.semiglobal(&st.query),
                'l' => al.local(&st.query),
                _ => al.custom(&st.query),
            };
            al.alignment()
        }));
        let aln = match r {
            Ok(a) => a,
            Err(_) => {
                out.push_str(" s:PANIC");
                break;
            }
        };
        out.push_str(&format!(" s:{} o:{}", aln.score, ops_str(aln.verif_operations())));
        if st.add {
            if catch_unwind(AssertUnwindSafe(|| {
                al.add_to_graph();
            }))
            .is_err()
            {
                out.push_str(" g:PANIC");
                break;
            }
            out.push_str(&format!(" {} {}", graph_str(al.graph()), cons_str(&al)));
        }
    }
    Ok(out)
}

// ---------------------------------------------------------------------------------------------- generation

/// the bound `B` of `PoaEnv`: largest magnitude of a table entry and of the gap score, at least 1
fn env_bound(gap: i32, table: &[i32]) -> i64 {
    table.iter().map(|v| (*v as i64).abs()).fold((gap as i64).abs().max(1), i64::max)
}

/// largest `B` with `(m + 2n + 1) B < -MIN_SCORE`
fn env_max_bound(m: usize, n: usize) -> i64 {
    (-(MIN_SCORE as i64) - 1) / (m + 2 * n + 1) as i64
}

struct Scheme {
    gap: i32,
    clips: [i32; 4],
    alpha: Vec<u8>,
    table: Vec<i32>,
}

impl Scheme {
    fn head(&self) -> String {
        format!(
            "{}:{}:{}:{}:{} {} {}",
            self.gap,
            self.clips[0],
            self.clips[1],
            self.clips[2],
            self.clips[3],
            hex(&self.alpha),
            join(&self.table, ",")
        )
    }
}

fn alphabet(rng: &mut Rng) -> Vec<u8> {
    let k = 2 + rng.below(3);
    let mut a: Vec<u8> = b"ACGT"[..k].to_vec();
    if rng.chance(1, 16) {
        a[k - 1] = b'X'; // the symbol `add_alignment` treats as a wildcard
    }
    a
}

/// match/mismatch scheme under which the identity alignment of a sequence with itself is the unique optimum:
/// one match score M > 0 for all equal pairs, every other pair < M, gap < 0
fn scheme_unique(rng: &mut Rng) -> Scheme {
    let alpha = alphabet(rng);
    let k = alpha.len();
    let m = 1 + rng.below(3) as i32;
    let varied = rng.chance(1, 3);
    let mm = rng.range(-3, (m - 1) as i64) as i32;
    let mut table = vec![0; k * k];
    for i in 0..k {
        for j in 0..k {
            table[i * k + j] = if i == j {
                m
            } else if varied {
                rng.range(-3, (m - 1) as i64) as i32
            } else {
                mm
            };
        }
    }
    Scheme { gap: -(1 + rng.below(4) as i32), clips: [MIN_SCORE; 4], alpha, table }
}

/// arbitrary substitution table (equal symbols need not score best), gap 0..-4
fn scheme_any(rng: &mut Rng) -> Scheme {
    let alpha = alphabet(rng);
    let k = alpha.len();
    let table: Vec<i32> = match rng.below(4) {
        0 => (0..k * k).map(|_| rng.range(-4, 4) as i32).collect(),
        1 => (0..k * k).map(|i| if i / k == i % k { 0 } else { rng.range(-2, 0) as i32 }).collect(), // match score 0
        2 => (0..k * k).map(|i| if i / k == i % k { rng.range(0, 5) as i32 } else { rng.range(-5, 1) as i32 }).collect(),
        _ => {
            let m = rng.range(1, 4) as i32;
            let x = rng.range(-4, 0) as i32;
            (0..k * k).map(|i| if i / k == i % k { m } else { x }).collect()
        }
    };
    let gap = if rng.chance(1, 8) { 0 } else { -(1 + rng.below(4) as i32) };
    Scheme { gap, clips: [MIN_SCORE; 4], alpha, table }
}

fn clip(rng: &mut Rng) -> i32 {
    *rng.pick(&[MIN_SCORE, MIN_SCORE, 0, 0, -1, -3, -6])
}

fn reference(rng: &mut Rng, alpha: &[u8]) -> Vec<u8> {
    let len = match rng.below(12) {
        0 => 1,
        1 => 2,
        2..=7 => 3 + rng.below(10),
        _ => 10 + rng.below(16),
    };
    if rng.chance(1, 6) {
        // low complexity: repeats make ties and alternative optimal paths frequent
        let per = 1 + rng.below(2);
        let w = rng.seq(alpha, per);
        (0..len).map(|i| w[i % per]).collect()
    } else {
        rng.seq(alpha, len)
    }
}

fn query(rng: &mut Rng, alpha: &[u8], reference: &[u8], earlier: &[Vec<u8>]) -> Vec<u8> {
    let mut q = match rng.below(12) {
        0 => reference.to_vec(),
        1..=4 => {
            let rate = 10 + rng.below(30);
            rng.mutate(reference, alpha, rate)
        }
        5 => {
            let n = 1 + rng.below(25);
            rng.seq(alpha, n)
        }
        6 => {
            // a piece of the reference
            let a = rng.below(reference.len());
            let b = a + 1 + rng.below(reference.len() - a);
            reference[a..b].to_vec()
        }
        7 => {
            // reference with an inserted block / extended ends
            let mut q = reference.to_vec();
            let at = rng.below(q.len() + 1);
            let n = 1 + rng.below(5);
            let ins = rng.seq(alpha, n);
            q.splice(at..at, ins);
            q
        }
        8 => vec![*rng.pick(alpha)],
        9 | 10 if !earlier.is_empty() => {
            let e = rng.pick(earlier).clone();
            if rng.chance(1, 2) {
                e
            } else {
                rng.mutate(&e, alpha, 15)
            }
        }
        _ => rng.mutate(reference, alpha, 50),
    };
    if q.is_empty() {
        q.push(*rng.pick(alpha));
    }
    q.truncate(25);
    q
}

fn step(mode: char, q: &[u8], bw: usize, add: bool) -> String {
    format!("{}:{}:{}:{}", mode, hex(q), bw, if add { "a" } else { "n" })
}

fn full_band(rng: &mut Rng, m: usize, n: usize) -> usize {
    m.max(n) + *rng.pick(&[0usize, 0, 1, 5])
}

/// mixed history on one aligner
fn history(rng: &mut Rng, out: &mut Vec<String>) {
    let mut sch = if rng.chance(1, 2) { scheme_unique(rng) } else { scheme_any(rng) };
    if rng.chance(1, 3) {
        sch.clips = [clip(rng), clip(rng), clip(rng), clip(rng)];
    }
    let r = reference(rng, &sch.alpha);
    let nsteps = 1 + rng.below(8);
    let mut steps = vec![];
    let mut earlier: Vec<Vec<u8>> = vec![];
    let mut nodes = r.len();
    for _ in 0..nsteps {
        let q = query(rng, &sch.alpha, &r, &earlier);
        let add = rng.chance(4, 5);
        let s = match rng.below(20) {
            0..=8 => {
                let bw = if rng.chance(1, 2) { full_band(rng, nodes, q.len()) } else { 0 };
                step('g', &q, bw, add)
            }
            9..=12 => {
                let bw = if rng.chance(3, 5) { full_band(rng, nodes, q.len()) } else { 1 + rng.below(6) };
                step('b', &q, bw, add)
            }
            13 | 14 => step('s', &q, 0, add),
            15 | 16 => step('l', &q, 0, add),
            _ => step('c', &q, 0, add),
        };
        steps.push(s);
        if add {
            nodes += q.len(); // upper bound, keeps later "full" bands full
            earlier.push(q);
        }
    }
    out.push(format!("{} {} {}", sch.head(), hex(&r), steps.join("/")));
}

/// "envelope edge": the sequences are drawn first, then scores of magnitude up to the largest `B` the envelope of `exec`
/// allows for this history — the `i32` arithmetic of `custom` / `global_banded` is sampled next to the proven bound
/// (`poa_i32_no_overflow`), not only for |scores| <= 5.  Linear graph (score clause: `g` and full-band `b` steps, nothing
/// added) or a history with additions in all modes.
fn edge_case(rng: &mut Rng, out: &mut Vec<String>) {
    let alpha = alphabet(rng);
    let k = alpha.len();
    let r = reference(rng, &alpha);
    let linear = rng.chance(1, 2);
    let nsteps = 1 + rng.below(5);
    let mut steps = vec![];
    let mut earlier: Vec<Vec<u8>> = vec![];
    let mut nodes = r.len();
    let mut bmax = i64::MAX;
    for _ in 0..nsteps {
        let q = query(rng, &alpha, &r, &earlier);
        bmax = bmax.min(env_max_bound(nodes, q.len()));
        let add = !linear && rng.chance(3, 4);
        let s = match rng.below(if linear { 12 } else { 16 }) {
            0..=7 => {
                let bw = if rng.chance(1, 2) { full_band(rng, nodes, q.len()) } else { 0 };
                step('g', &q, bw, add)
            }
            8..=11 => step('b', &q, full_band(rng, nodes, q.len()), add),
            12 => step('s', &q, 0, add),
            13 => step('l', &q, 0, add),
            _ => step('c', &q, 0, add),
        };
        steps.push(s);
        if add {
            nodes += q.len();
            earlier.push(q);
        }
    }
    let b = match rng.below(6) {
        0 | 1 | 2 => bmax,
        3 => bmax - 1,
        4 => bmax / 2,
        _ => rng.range(1001.min(bmax), bmax),
    };
    let big = |rng: &mut Rng| -> i32 {
        (match rng.below(4) {
            0 | 1 => b,
            2 => b - rng.range(0, 3.min(b)),
            _ => rng.range(0, b),
        }) as i32
    };
    let style = rng.below(4);
    let mut table = vec![0i32; k * k];
    for i in 0..k {
        for j in 0..k {
            table[i * k + j] = match style {
                0 => if i == j { b as i32 } else { -(b as i32) },
                1 => if i == j { big(rng) } else { -big(rng) },
                _ => if rng.chance(1, 2) { big(rng) } else { -big(rng) },
            };
        }
    }
    let gap = match rng.below(5) {
        0 | 1 => -(b as i32),
        2 => 0,
        3 => -(rng.range(1, 6) as i32),
        _ => -(rng.range(0, b) as i32),
    };
    let clips = if linear || rng.chance(1, 2) {
        [MIN_SCORE; 4]
    } else {
        let mut c = [0i32; 4];
        for x in c.iter_mut() {
            *x = *rng.pick(&[MIN_SCORE, MIN_SCORE, 0, -1, -(b as i32), MIN_SCORE / 2, MIN_SCORE + 1]);
        }
        c
    };
    let sch = Scheme { gap, clips, alpha, table };
    out.push(format!("{} {} {}", sch.head(), hex(&r), steps.join("/")));
}

/// the score clause in volume: several queries against the fresh linear graph, nothing added
fn linear_case(rng: &mut Rng, out: &mut Vec<String>) {
    let sch = if rng.chance(1, 3) { scheme_unique(rng) } else { scheme_any(rng) };
    let r = reference(rng, &sch.alpha);
    let n = 2 + rng.below(5);
    let mut steps = vec![];
    for _ in 0..n {
        let q = query(rng, &sch.alpha, &r, &[]);
        let bw = full_band(rng, r.len(), q.len());
        steps.push(if rng.chance(1, 4) { step('b', &q, bw, false) } else { step('g', &q, bw, false) });
    }
    // possibly finish with one addition so that the graph clauses see the alignment just checked
    if rng.chance(1, 2) {
        let q = query(rng, &sch.alpha, &r, &[]);
        steps.push(step('g', &q, full_band(rng, r.len(), q.len()), true));
    }
    out.push(format!("{} {} {}", sch.head(), hex(&r), steps.join("/")));
}

/// the reference re-added 1–8 times under a scheme whose unique optimum is the identity alignment
fn identity_case(rng: &mut Rng, out: &mut Vec<String>) {
    let sch = scheme_unique(rng);
    let r = reference(rng, &sch.alpha);
    let n = 1 + rng.below(8);
    let steps: Vec<String> = (0..n)
        .map(|_| {
            let bw = if rng.chance(1, 2) { full_band(rng, r.len(), r.len()) } else { 0 };
            step('g', &r, bw, true)
        })
        .collect();
    out.push(format!("{} {} {}", sch.head(), hex(&r), steps.join("/")));
}

fn enum_seqs(alpha: &[u8], minlen: usize, maxlen: usize) -> Vec<Vec<u8>> {
    let mut out = vec![];
    let mut cur: Vec<Vec<u8>> = vec![vec![]];
    for l in 0..=maxlen {
        if l >= minlen {
            out.extend(cur.iter().cloned());
        }
        let mut nxt = vec![];
        for s in &cur {
            for &a in alpha {
                let mut t = s.clone();
                t.push(a);
                nxt.push(t);
            }
        }
        cur = nxt;
    }
    out
}


/// seed C16-7: the boundary of the banded clause, `bandwidth == max(#nodes, |query|)` ("at least as large as both
/// lengths" holds with equality), on the fresh linear graph, score-only.  Per query three steps: `g` with the boundary
/// bandwidth (banded score against the global one), `g` with one more, `b` with the boundary bandwidth (operations
/// and score of `global_banded` itself).  At most 15 steps per line.
fn boundary_lines(head: &str, r: &[u8], queries: &[Vec<u8>], out: &mut Vec<String>) {
    for chunk in queries.chunks(5) {
        let mut steps = vec![];
        for q in chunk {
            let bw = r.len().max(q.len());
            steps.push(step('g', q, bw, false));
            steps.push(step('g', q, bw + 1, false));
            steps.push(step('b', q, bw, false));
        }
        out.push(format!("{} {} {}", head, hex(r), steps.join("/")));
    }
}

/// scoring schemes of the boundary block over the alphabet {A, C}: match much larger than mismatch / gap (a single
/// match outweighs several gaps, so optimal alignments start or end with long gap runs and leave the diagonal),
/// the textbook unit scheme, an asymmetric table, gap 0, and gap much larger than match
const BOUNDARY_SCHEMES: [&str; 8] = [
    "-1:-858993459:-858993459:-858993459:-858993459 4143 3,-1,-1,3",
    "-1:-858993459:-858993459:-858993459:-858993459 4143 2,-2,-2,2",
    "-1:-858993459:-858993459:-858993459:-858993459 4143 10,-3,-3,10",
    "-2:-858993459:-858993459:-858993459:-858993459 4143 5,-4,-4,5",
    "-1:-858993459:-858993459:-858993459:-858993459 4143 1,-1,-1,1",
    "-2:-858993459:-858993459:-858993459:-858993459 4143 2,0,-3,1",
    "0:-858993459:-858993459:-858993459:-858993459 4143 1,-1,-2,0",
    "-3:-858993459:-858993459:-858993459:-858993459 4143 1,-1,-1,1",
];

fn gen_boundary(tier: &str, rng: &mut Rng, out: &mut Vec<String>) {
    let thorough = tier == "thorough";
    // exhaustive: every reference and every query over {A, C} of length 1..4 (30 x 30 pairs) under every scheme
    let small = enum_seqs(b"AC", 1, 4);
    // sample of lengths 5..6 (96 sequences): per scheme and reference a fresh sample of queries of length 1..6
    let long = enum_seqs(b"AC", 5, 6);
    let all = enum_seqs(b"AC", 1, 6);
    for head in BOUNDARY_SCHEMES {
        for r in &small {
            boundary_lines(head, r, &small, out);
        }
        let nref = if thorough { long.len() } else { 12 };
        for i in 0..nref {
            let r = if thorough { long[i].clone() } else { rng.pick(&long).clone() };
            let nq = if thorough { 18 } else { 10 };
            let mut qs: Vec<Vec<u8>> = (0..nq).map(|_| rng.pick(&all).clone()).collect();
            // the reversed / rotated reference: the optimum then starts with a gap run and ends with one
            let mut rev = r.clone();
            rev.reverse();
            qs.push(rev);
            let mut rot = r.clone();
            rot.rotate_left(1);
            qs.push(rot);
            boundary_lines(head, &r, &qs, out);
        }
    }
    // random larger pairs over 2..4 symbols at exactly bandwidth = max(m, n): one match score in {1,2,3,5,8}, mismatch in
    // {-1,-2,-4}, gap in {-1,-2,-3}; queries: rotations, reversal, pieces, mutated copies, unrelated
    let cases = if thorough { 5_000 } else { 500 };
    for _ in 0..cases {
        let alpha: Vec<u8> = b"ACGT"[..2 + rng.below(3)].to_vec();
        let k = alpha.len();
        let m = *rng.pick(&[1, 2, 3, 3, 5, 8]);
        let x = *rng.pick(&[-1, -2, -4]);
        let table: Vec<i32> = (0..k * k).map(|i| if i / k == i % k { m } else { x }).collect();
        let sch = Scheme { gap: *rng.pick(&[-1, -1, -2, -3]), clips: [MIN_SCORE; 4], alpha: alpha.clone(), table };
        let len = if rng.chance(2, 3) { 1 + rng.below(10) } else { 5 + rng.below(21) };
        let r = rng.seq(&alpha, len);
        let mut qs: Vec<Vec<u8>> = vec![];
        for _ in 0..5 {
            let q = match rng.below(8) {
                0 => {
                    let mut q = r.clone();
                    let by = rng.below(r.len());
                    q.rotate_left(by);
                    q
                }
                1 => {
                    let mut q = r.clone();
                    q.reverse();
                    q
                }
                2 | 3 => {
                    let n = 1 + rng.below(if len <= 10 { 10 } else { 25 });
                    rng.seq(&alpha, n)
                }
                _ => query(rng, &alpha, &r, &[]),
            };
            qs.push(q);
        }
        boundary_lines(&sch.head(), &r, &qs, out);
    }
}

pub fn gen(tier: &str, rng: &mut Rng, out: &mut Vec<String>) {
    let n = if tier == "thorough" { 150_000 } else { 5_000 };
    for i in 0..n {
        match i % 10 {
            0 | 1 => linear_case(rng, out),
            2 => identity_case(rng, out),
            _ => history(rng, out),
        }
    }
    // envelope edge (appended, so that the cases above are those of the earlier sessions)
    let nedge = if tier == "thorough" { 10_000 } else { 600 };
    for _ in 0..nedge {
        edge_case(rng, out);
    }
    // the boundary bandwidth == max(m, n) of the banded clause (seed C16-7), quick and thorough
    gen_boundary(tier, rng, out);
    if tier == "thorough" {
        // exhaustive small scope: every reference and query over {A,C} of length 1..4 (30 x 30), three schemes,
        // global + full band on the fresh graph, then the query added and the reference re-aligned
        let seqs = enum_seqs(b"AC", 1, 4);
        let schemes = ["-1:-858993459:-858993459:-858993459:-858993459 4143 1,-1,-1,1",
            "-2:-858993459:-858993459:-858993459:-858993459 4143 2,0,-3,1",
            "0:-858993459:-858993459:-858993459:-858993459 4143 1,-1,-2,0"];
        for sch in schemes {
            for r in &seqs {
                for q in &seqs {
                    let bw = r.len().max(q.len());
                    out.push(format!(
                        "{} {} {}/{}",
                        sch,
                        hex(r),
                        step('g', q, bw, true),
                        step('g', r, bw + q.len(), true)
                    ));
                }
            }
        }
    }
}
