//! C08 — exact matchers: `<matcher> <pattern> <t1>/<t2>/… => <l1>/<l2>/…` (one matcher object, texts in turn).
use crate::util::*;
use bio::pattern_matching::{bndm::BNDM, bom::BOM, horspool::Horspool, kmp::KMP, shift_and::ShiftAnd};

const MATCHERS: [&str; 5] = ["shiftand", "bndm", "bom", "horspool", "kmp"];

fn alphabet(rng: &mut Rng) -> Vec<u8> {
    match rng.below(6) {
        0 => vec![b'a'],
        1 | 2 => vec![b'a', b'b'],
        3 => vec![b'a', b'b', b'c'],
        4 => vec![0, 255, 128, b'a'],
        _ => (0..=255).collect(),
    }
}

fn pattern(rng: &mut Rng, alpha: &[u8], bitpar: bool) -> Vec<u8> {
    let len = match rng.below(10) {
        0..=4 => 1 + rng.below(8),
        5 => *rng.pick(&[31usize, 32, 33, 63, 64]),
        6 => {
            if bitpar {
                *rng.pick(&[64usize, 64, 65, 63])
            } else {
                *rng.pick(&[64usize, 65, 100])
            }
        }
        7 => 1 + rng.below(3),
        _ => 9 + rng.below(20),
    };
    match rng.below(4) {
        // periodic: power of a short word
        0 => {
            let per = 1 + rng.below(3.min(len));
            let w = rng.seq(alpha, per);
            (0..len).map(|i| w[i % per]).collect()
        }
        // near periodic: one symbol changed
        1 => {
            let per = 1 + rng.below(3.min(len));
            let w = rng.seq(alpha, per);
            let mut p: Vec<u8> = (0..len).map(|i| w[i % per]).collect();
            let i = rng.below(len);
            p[i] = *rng.pick(alpha);
            p
        }
        _ => rng.seq(alpha, len),
    }
}

fn text(rng: &mut Rng, alpha: &[u8], p: &[u8]) -> Vec<u8> {
    match rng.below(8) {
        0 => vec![],
        1 => p[..rng.below(p.len())].to_vec(), // shorter than the pattern
        2 => p.to_vec(),
        // pattern planted several times (overlapping allowed) in noise
        3 | 4 => {
            let n0 = rng.below(6);
            let mut t = rng.seq(alpha, n0);
            for _ in 0..1 + rng.below(4) {
                if rng.chance(1, 2) && !t.is_empty() {
                    // overlap: drop a random-length tail, then plant
                    let cut = rng.below(p.len().min(t.len()) + 1);
                    t.truncate(t.len() - cut);
                }
                t.extend_from_slice(p);
                let n = rng.below(4);
                t.extend(rng.seq(alpha, n));
            }
            t
        }
        // long periodic text built from the pattern's own symbols
        5 => {
            let n = p.len() * 2 + rng.below(40);
            let per = 1 + rng.below(p.len().min(4));
            (0..n).map(|i| p[i % per]).collect()
        }
        6 => {
            let n = p.len() + rng.below(3 * p.len() + 5);
            (0..n).map(|i| p[i % p.len()]).collect()
        }
        _ => {
            let n = rng.below(60);
            rng.seq(alpha, n)
        }
    }
}

fn enum_seqs(alpha: &[u8], maxlen: usize, minlen: usize) -> Vec<Vec<u8>> {
    let mut out = vec![];
    let mut cur: Vec<Vec<u8>> = vec![vec![]];
    for l in 0..=maxlen {
        if l >= minlen {
            out.extend(cur.iter().cloned());
        }
        let mut nxt = vec![];
        for s in &cur {
            for &a in alpha {
                let mut t = s.clone();
                t.push(a);
                nxt.push(t);
            }
        }
        cur = nxt;
    }
    out
}

pub fn gen(tier: &str, rng: &mut Rng, out: &mut Vec<String>) {
    let n = if tier == "thorough" { 40_000 } else { 4_000 };
    for i in 0..n {
        let m = MATCHERS[i % 5];
        let alpha = alphabet(rng);
        let p = pattern(rng, &alpha, m == "shiftand" || m == "bndm");
        let k = 1 + rng.below(4);
        let texts: Vec<String> = (0..k).map(|_| hex(&text(rng, &alpha, &p))).collect();
        out.push(format!("{} {} {}", m, hex(&p), texts.join("/")));
    }
    if tier == "thorough" {
        // exhaustive small scope: all p (1..=4) and t (0..=9) over {a,b}; texts grouped per pattern
        let ps = enum_seqs(b"ab", 4, 1);
        let ts = enum_seqs(b"ab", 9, 0);
        for p in &ps {
            for chunk in ts.chunks(64) {
                let texts: Vec<String> = chunk.iter().map(|t| hex(t)).collect();
                for m in MATCHERS {
                    out.push(format!("{} {} {}", m, hex(p), texts.join("/")));
                }
            }
        }
    }
}

/// The transition table of a `BOM`, read off its derived `Debug` output (the fields are private):
/// `BOM { m: 3, table: [{97: 1, 98: 2}, {98: 3}, {}] }`  →  `97:1,98:2;98:3;-`  (states `;`-separated, entries
/// `symbol:target` in ascending symbol order).  `?` if the text does not have the expected shape.
fn bom_table(m: &BOM) -> String {
    let d = format!("{:?}", m);
    let body = match (d.find("table: ["), d.rfind(']')) {
        (Some(a), Some(b)) if a + 8 <= b => &d[a + 8..b],
        _ => return "?".into(),
    };
    let mut states: Vec<String> = vec![];
    let mut rest = body;
    while let Some(a) = rest.find('{') {
        let b = match rest[a..].find('}') {
            Some(b) => a + b,
            None => return "?".into(),
        };
        let inner = &rest[a + 1..b];
        let mut es: Vec<String> = vec![];
        for e in inner.split(',').map(|e| e.trim()).filter(|e| !e.is_empty()) {
            let kv: Vec<&str> = e.split(':').map(|x| x.trim()).collect();
            if kv.len() != 2 || kv[0].parse::<usize>().is_err() || kv[1].parse::<usize>().is_err() {
                return "?".into();
            }
            es.push(format!("{}:{}", kv[0], kv[1]));
        }
        states.push(if es.is_empty() { "-".into() } else { es.join(",") });
        rest = &rest[b + 1..];
    }
    if states.is_empty() {
        "?".into()
    } else {
        states.join(";")
    }
}

pub fn exec(toks: &[&str]) -> Result<String, String> {
    if toks.len() != 3 {
        return Err("arity".into());
    }
    let p = unhex(toks[1])?;
    if p.is_empty() {
        return Err("empty pattern".into());
    }
    let texts: Vec<Vec<u8>> = split_ne(toks[2], '/').into_iter().map(unhex).collect::<Result<_, _>>()?;
    let mut outs: Vec<String> = vec![];
    match toks[0] {
        "shiftand" => {
            let m = ShiftAnd::new(&p);
            for t in &texts {
                outs.push(join(&m.find_all(t).collect::<Vec<usize>>(), ","));
            }
        }
        "bndm" => {
            let m = BNDM::new(&p);
            for t in &texts {
                outs.push(join(&m.find_all(t).collect::<Vec<usize>>(), ","));
            }
        }
        "bom" => {
            let m = BOM::new(&p);
            for t in &texts {
                outs.push(join(&m.find_all(t).collect::<Vec<usize>>(), ","));
            }
            // the oracle table as well (compared with the Lean model of `BOM::new` by the driver; informational)
            return Ok(format!("{}|{}", outs.join("/"), bom_table(&m)));
        }
        "horspool" => {
            let m = Horspool::new(&p);
            for t in &texts {
                outs.push(join(&m.find_all(t).collect::<Vec<usize>>(), ","));
            }
        }
        "kmp" => {
            let m = KMP::new(&p);
            for t in &texts {
                outs.push(join(&m.find_all(t).collect::<Vec<usize>>(), ","));
            }
        }
        _ => return Err("matcher".into()),
    }
    Ok(outs.join("/"))
}
