//! C07 — interval trees and the annotation map.
//!
//! One line = one operation history on one object:  `<kind> <op>/<op>/…`
//!
//! kinds and their operations (all keys `i64`, data `i64`; every interval and every query has start < end,
//! anything else is "not a case" — zero/negative width is outside the property):
//!   avl      IntervalTree<i64,i64>            ins:s:e:d  find:s:e  findmut:s:e:delta  dump
//!   arr      ArrayBackedIntervalTree<i64,i64> ins:s:e:d  index  find:s:e  findinto:s:e
//!   arrfi    the same, but the leading run of `ins` is fed through `from_iter` (which indexes)
//!   amap     AnnotMap<String,i64>             ins:r:s:e:d  find:r:s:e          (r = small integer → refid "r<r>")
//!   amaploc  AnnotMap<String,Contig>          ins:r:s:e:d  find:r:s:e          (`insert_loc`; d ∈ {0,1} = strand)
//!
//! Observation: one segment per observing operation (find, findmut, findinto, dump), joined by `/`:
//!   find…    `s:e:d,s:e:d,…` in the order the implementation returned them (`-` when empty); for `findmut`
//!            d is the value seen *before* `delta` was added through the mutable iterator;
//!            `PANIC:<class>` when that single call panicked (expected for a query on an un-indexed array tree)
//!   dump     `depth:start:end:max:height:c,…` pre-order, c = has_left + 2·has_right (`-` for the empty tree)
use crate::util::*;
use bio::data_structures::annot_map::AnnotMap;
use bio::data_structures::interval_tree::{ArrayBackedIntervalTree, IntervalTree};
use bio_types::annot::contig::Contig;
use bio_types::strand::ReqStrand;
use std::iter::FromIterator;
use std::panic::{catch_unwind, AssertUnwindSafe};

// ------------------------------------------------------------------------------------------------ exec

#[derive(Clone, Debug)]
enum Op {
    Ins(i64, i64, i64, i64), // refid (0 for the trees), s, e, d
    Find(i64, i64, i64),     // refid, s, e
    FindMut(i64, i64, i64),  // s, e, delta
    FindInto(i64, i64),
    Index,
    Dump,
}

fn nums(parts: &[&str]) -> Result<Vec<i64>, String> {
    parts.iter().map(|p| parse::<i64>(p)).collect()
}

const LIM: i64 = 1_000_000_000_000;

fn parse_op(kind: &str, s: &str) -> Result<Op, String> {
    let p: Vec<&str> = s.split(':').collect();
    let amap = kind == "amap" || kind == "amaploc";
    let v = nums(&p[1..])?;
    if v.iter().any(|x| x.abs() > LIM) {
        return Err("number out of range".into());
    }
    let pos = |s: i64, e: i64| if s < e { Ok(()) } else { Err("non-positive width".to_string()) };
    match (p[0], v.len()) {
        ("ins", 3) if !amap => {
            pos(v[0], v[1])?;
            Ok(Op::Ins(0, v[0], v[1], v[2]))
        }
        ("ins", 4) if amap => {
            pos(v[1], v[2])?;
            if v[0] < 0 || v[0] > 9 {
                return Err("refid".into());
            }
            if kind == "amaploc" && !(v[3] == 0 || v[3] == 1) {
                return Err("strand".into());
            }
            Ok(Op::Ins(v[0], v[1], v[2], v[3]))
        }
        ("find", 2) if !amap => {
            pos(v[0], v[1])?;
            Ok(Op::Find(0, v[0], v[1]))
        }
        ("find", 3) if amap => {
            pos(v[1], v[2])?;
            if v[0] < 0 || v[0] > 9 {
                return Err("refid".into());
            }
            Ok(Op::Find(v[0], v[1], v[2]))
        }
        ("findmut", 3) if kind == "avl" => {
            pos(v[0], v[1])?;
            Ok(Op::FindMut(v[0], v[1], v[2]))
        }
        ("findinto", 2) if kind == "arr" || kind == "arrfi" => {
            pos(v[0], v[1])?;
            Ok(Op::FindInto(v[0], v[1]))
        }
        ("index", 0) if kind == "arr" || kind == "arrfi" => Ok(Op::Index),
        ("dump", 0) if kind == "avl" => Ok(Op::Dump),
        _ => Err(format!("bad op {}", s)),
    }
}

fn panic_class(e: &(dyn std::any::Any + Send)) -> String {
    let msg = if let Some(s) = e.downcast_ref::<&str>() {
        s.to_string()
    } else if let Some(s) = e.downcast_ref::<String>() {
        s.clone()
    } else {
        "unknown".to_string()
    };
    let mut m: String =
        msg.chars().map(|c| if c.is_ascii_alphanumeric() { c.to_ascii_lowercase() } else { '-' }).collect();
    while m.contains("--") {
        m = m.replace("--", "-");
    }
    m.truncate(60);
    m
}

fn show(items: &[(i64, i64, i64)]) -> String {
    if items.is_empty() {
        return "-".into();
    }
    items.iter().map(|(s, e, d)| format!("{}:{}:{}", s, e, d)).collect::<Vec<_>>().join(",")
}

fn exec_avl(ops: &[Op]) -> Vec<String> {
    let mut t: IntervalTree<i64, i64> = IntervalTree::new();
    let mut out = vec![];
    for op in ops {
        match *op {
            Op::Ins(_, s, e, d) => t.insert(s..e, d),
            Op::Find(_, s, e) => {
                let r: Vec<(i64, i64, i64)> =
                    t.find(s..e).map(|x| (x.interval().start, x.interval().end, *x.data())).collect();
                out.push(show(&r));
            }
            Op::FindMut(s, e, delta) => {
                let mut r = vec![];
                for mut x in t.find_mut(s..e) {
                    let (a, b) = (x.interval().start, x.interval().end);
                    let d = x.data();
                    r.push((a, b, *d));
                    *d += delta;
                }
                out.push(show(&r));
            }
            Op::Dump => {
                let d = t.verif_dump();
                if d.is_empty() {
                    out.push("-".into());
                } else {
                    out.push(
                        d.iter()
                            .map(|(depth, s, e, m, h, l, r)| {
                                format!("{}:{}:{}:{}:{}:{}", depth, s, e, m, h, (*l as u8) + 2 * (*r as u8))
                            })
                            .collect::<Vec<_>>()
                            .join(","),
                    );
                }
            }
            _ => unreachable!(),
        }
    }
    out
}

fn exec_arr(ops: &[Op], from_iter: bool) -> Vec<String> {
    let mut start = 0;
    let mut t: ArrayBackedIntervalTree<i64, i64> = if from_iter {
        while start < ops.len() && matches!(ops[start], Op::Ins(..)) {
            start += 1;
        }
        ArrayBackedIntervalTree::from_iter(ops[..start].iter().map(|o| match *o {
            Op::Ins(_, s, e, d) => (s..e, d),
            _ => unreachable!(),
        }))
    } else {
        ArrayBackedIntervalTree::new()
    };
    let mut out = vec![];
    // the reusable buffer of `find_into` borrows the tree, so each call gets a buffer pre-filled with junk
    // taken from a scratch tree of the same lifetime class: simplest faithful use is a fresh non-empty Vec
    for op in &ops[start..] {
        match *op {
            Op::Ins(_, s, e, d) => t.insert(s..e, d),
            Op::Index => t.index(),
            Op::Find(_, s, e) => {
                let r = catch_unwind(AssertUnwindSafe(|| {
                    t.find(s..e)
                        .iter()
                        .map(|x| (x.interval().start, x.interval().end, *x.data()))
                        .collect::<Vec<_>>()
                }));
                out.push(match r {
                    Ok(v) => show(&v),
                    Err(e) => format!("PANIC:{}", panic_class(&*e)),
                });
            }
            Op::FindInto(s, e) => {
                let r = catch_unwind(AssertUnwindSafe(|| {
                    let mut buf = Vec::new();
                    // first call fills the buffer with everything, second call must replace its content
                    t.find_into(i64::MIN / 2..i64::MAX / 2, &mut buf);
                    t.find_into(s..e, &mut buf);
                    buf.iter().map(|x| (x.interval().start, x.interval().end, *x.data())).collect::<Vec<_>>()
                }));
                out.push(match r {
                    Ok(v) => show(&v),
                    Err(e) => format!("PANIC:{}", panic_class(&*e)),
                });
            }
            _ => unreachable!(),
        }
    }
    out
}

fn refname(r: i64) -> String {
    format!("r{}", r)
}

fn exec_amap(ops: &[Op]) -> Vec<String> {
    let mut m: AnnotMap<String, i64> = AnnotMap::new();
    let mut out = vec![];
    for op in ops {
        match *op {
            Op::Ins(r, s, e, d) => {
                m.insert_at(d, &Contig::new(refname(r), s as isize, (e - s) as usize, ReqStrand::Forward))
            }
            Op::Find(r, s, e) => {
                let q = Contig::new(refname(r), s as isize, (e - s) as usize, ReqStrand::Forward);
                let want = refname(r);
                let mut v = vec![];
                for x in m.find(&q) {
                    if x.refid() != &want {
                        // the entry claims another reference id: make it visible as an impossible entry
                        v.push((i64::MIN, i64::MIN, 0));
                    } else {
                        v.push((x.interval().start as i64, x.interval().end as i64, *x.data()));
                    }
                }
                out.push(show(&v));
            }
            _ => unreachable!(),
        }
    }
    out
}

fn exec_amaploc(ops: &[Op]) -> Vec<String> {
    use bio_types::annot::loc::Loc;
    let mut m: AnnotMap<String, Contig<String, ReqStrand>> = AnnotMap::new();
    let mut out = vec![];
    for op in ops {
        match *op {
            Op::Ins(r, s, e, d) => {
                let st = if d == 0 { ReqStrand::Forward } else { ReqStrand::Reverse };
                m.insert_loc(Contig::new(refname(r), s as isize, (e - s) as usize, st))
            }
            Op::Find(r, s, e) => {
                let q = Contig::new(refname(r), s as isize, (e - s) as usize, ReqStrand::Forward);
                let want = refname(r);
                let mut v = vec![];
                for x in m.find(&q) {
                    let c = x.data();
                    let iv = x.interval();
                    // the stored location must agree with the interval it is filed under
                    if x.refid() != &want
                        || c.refid() != &want
                        || c.start() != iv.start
                        || c.start() + c.length() as isize != iv.end
                    {
                        v.push((i64::MIN, i64::MIN, 0));
                    } else {
                        let d = if c.strand() == ReqStrand::Forward { 0 } else { 1 };
                        v.push((iv.start as i64, iv.end as i64, d));
                    }
                }
                out.push(show(&v));
            }
            _ => unreachable!(),
        }
    }
    out
}

pub fn exec(toks: &[&str]) -> Result<String, String> {
    if toks.len() != 2 {
        return Err("arity".into());
    }
    let kind = toks[0];
    if !["avl", "arr", "arrfi", "amap", "amaploc"].contains(&kind) {
        return Err("kind".into());
    }
    let ops: Vec<Op> = split_list(toks[1], '/').into_iter().map(|s| parse_op(kind, s)).collect::<Result<_, _>>()?;
    let segs = match kind {
        "avl" => exec_avl(&ops),
        "arr" => exec_arr(&ops, false),
        "arrfi" => exec_arr(&ops, true),
        "amap" => exec_amap(&ops),
        _ => exec_amaploc(&ops),
    };
    Ok(if segs.is_empty() { "none".to_string() } else { segs.join("/") })
}

// ------------------------------------------------------------------------------------------------ gen

/// insertion patterns: a list of (start, end)
fn pattern(rng: &mut Rng, n: usize) -> Vec<(i64, i64)> {
    let base = *rng.pick(&[0i64, 0, 0, -7, 100, -1000]);
    let wmax = *rng.pick(&[1i64, 2, 3, 6, 12, 40]);
    let mut v: Vec<(i64, i64)> = Vec::with_capacity(n);
    let kind = rng.below(12);
    match kind {
        // random starts from a small range: many equal starts, duplicates
        0 | 1 | 2 => {
            let r = *rng.pick(&[1usize, 2, 4, 8, 20, 60]);
            for _ in 0..n {
                let s = base + rng.below(r) as i64;
                v.push((s, s + 1 + rng.below(wmax as usize) as i64));
            }
        }
        // ascending / descending starts (single rotations all the way), steps 0..2
        3 | 4 => {
            let mut s = base;
            let stepmax = 1 + rng.below(3);
            for _ in 0..n {
                v.push((s, s + 1 + rng.below(wmax as usize) as i64));
                s += rng.below(stepmax) as i64 + if stepmax == 1 { 1 } else { 0 };
            }
            if kind == 4 {
                v.reverse();
            }
        }
        // zig-zag from both ends towards the middle (double rotations)
        5 => {
            let (mut lo, mut hi) = (base, base + n as i64);
            for i in 0..n {
                let s = if i % 2 == 0 {
                    lo += 1;
                    lo
                } else {
                    hi -= 1;
                    hi
                };
                v.push((s, s + 1 + rng.below(wmax as usize) as i64));
            }
        }
        // inside-out from the middle (the other double-rotation orientation)
        6 => {
            let mid = base + n as i64 / 2;
            for i in 0..n {
                let off = (i as i64 + 1) / 2;
                let s = if i % 2 == 0 { mid + off } else { mid - off };
                v.push((s, s + 1 + rng.below(wmax as usize) as i64));
            }
        }
        // pairs (a, a+gap, a+1, a+gap+1 …) and blocks shuffled: left-right / right-left cases deep in the tree
        7 => {
            let blocks = 1 + rng.below(6);
            let per = n / blocks + 1;
            let mut order: Vec<usize> = (0..blocks).collect();
            for i in (1..blocks).rev() {
                order.swap(i, rng.below(i + 1));
            }
            'outer: for b in order {
                let up = rng.chance(1, 2);
                for j in 0..per {
                    if v.len() >= n {
                        break 'outer;
                    }
                    let off = if up { j } else { per - 1 - j } as i64;
                    let s = base + (b * per) as i64 + off;
                    v.push((s, s + 1 + rng.below(wmax as usize) as i64));
                }
            }
        }
        // all starts equal (always goes left), ends vary
        8 => {
            for _ in 0..n {
                v.push((base, base + 1 + rng.below(3 * wmax as usize) as i64));
            }
        }
        // nested intervals, long first or short first
        9 => {
            let long_first = rng.chance(1, 2);
            for i in 0..n {
                let k = if long_first { i } else { n - 1 - i } as i64;
                v.push((base + k, base + 2 * n as i64 - k));
            }
        }
        // random permutation of distinct starts
        _ => {
            let mut ss: Vec<i64> = (0..n as i64).map(|i| base + i).collect();
            for i in (1..n).rev() {
                ss.swap(i, rng.below(i + 1));
            }
            for s in ss {
                v.push((s, s + 1 + rng.below(wmax as usize) as i64));
            }
        }
    }
    // a few giants: their end has to survive in `max` along the whole path whatever rotations follow
    if n > 0 && rng.chance(2, 3) {
        for _ in 0..1 + rng.below(3) {
            let i = match rng.below(4) {
                0 => 0,
                1 => n - 1,
                _ => rng.below(n),
            };
            let far = v.iter().map(|x| x.1).max().unwrap();
            v[i].1 = far + 1 + rng.below(5) as i64 + if rng.chance(1, 3) { 50 } else { 0 };
        }
    }
    v
}

fn data_for(rng: &mut Rng, i: usize) -> i64 {
    match rng.below(4) {
        0 => 0,
        1 => rng.below(3) as i64,
        _ => i as i64,
    }
}

/// a query aimed at the stored intervals `cur` (positive width always)
fn query(rng: &mut Rng, cur: &[(i64, i64)]) -> (i64, i64) {
    if cur.is_empty() {
        let s = rng.range(-3, 3);
        return (s, s + 1 + rng.below(4) as i64);
    }
    let lo = cur.iter().map(|x| x.0).min().unwrap();
    let hi = cur.iter().map(|x| x.1).max().unwrap();
    let e = *rng.pick(cur);
    match rng.below(16) {
        0 | 1 => (e.1 - 1, e.1),     // last cell of an entry
        2 => (e.1, e.1 + 1),         // touching its end: must not report it
        3 => (e.1 - 1, e.1 + 2),
        4 | 5 => (e.0, e.0 + 1),     // first cell
        6 => (e.0 - 1, e.0),         // touching its start
        7 => (e.0 - 2, e.0 + 1),
        8 => e,                      // identical
        9 => (lo - 1, hi + 1),       // everything
        10 => (lo - 5, lo),          // left of everything (touching)
        11 => (hi, hi + 3),          // right of everything (touching)
        12 => (hi - 1, hi),          // last cell of the farthest-reaching entry
        _ => {
            let s = rng.range(lo - 1, hi);
            let wm = *rng.pick(&[1usize, 2, 5, 20]);
            let w = 1 + rng.below(wm);
            (s, s + w as i64)
        }
    }
}

fn size_class(rng: &mut Rng, tier: &str) -> usize {
    let _ = tier;
    match rng.below(20) {
        0..=10 => 1 + rng.below(30),
        11..=16 => 30 + rng.below(70),
        17 | 18 => 100 + rng.below(100),
        _ => 200 + rng.below(101),
    }
}

fn gen_avl(rng: &mut Rng, tier: &str) -> String {
    let n = size_class(rng, tier);
    let ivs = pattern(rng, n);
    let batch = if n <= 30 { 1 + rng.below(2) } else if n <= 100 { 3 + rng.below(8) } else { 15 + rng.below(30) };
    let nq = if n <= 30 { 1 + rng.below(3) } else { 3 + rng.below(6) };
    let mut ops: Vec<String> = vec![];
    let mut cur: Vec<(i64, i64)> = vec![];
    if rng.chance(1, 8) {
        ops.push("dump".into());
        let q = query(rng, &cur);
        ops.push(format!("find:{}:{}", q.0, q.1));
    }
    for (i, iv) in ivs.iter().enumerate() {
        ops.push(format!("ins:{}:{}:{}", iv.0, iv.1, data_for(rng, i)));
        cur.push(*iv);
        if (i + 1) % batch == 0 || i + 1 == n {
            ops.push("dump".into());
            for _ in 0..nq {
                let q = query(rng, &cur);
                if rng.chance(1, 4) {
                    ops.push(format!("findmut:{}:{}:{}", q.0, q.1, 1 + rng.below(1000) as i64 * 1000));
                } else {
                    ops.push(format!("find:{}:{}", q.0, q.1));
                }
            }
        }
    }
    // closing sweep: every stored end and start gets a one-cell probe on large trees now and then
    if rng.chance(1, 3) {
        let mut pts: Vec<i64> = cur.iter().flat_map(|x| [x.0, x.1 - 1]).collect();
        pts.sort();
        pts.dedup();
        for p in pts.iter().take(80) {
            ops.push(format!("find:{}:{}", p, p + 1));
        }
    }
    format!("avl {}", ops.join("/"))
}

const ARR_SIZES: [usize; 34] = [
    0, 1, 2, 3, 4, 5, 6, 7, 8, 9, 15, 16, 17, 18, 23, 24, 31, 32, 33, 40, 47, 48, 63, 64, 65, 100, 127, 128, 129, 200,
    255, 256, 257, 300,
];

fn gen_arr(rng: &mut Rng, _tier: &str) -> String {
    let fi = rng.chance(1, 5);
    let n = if rng.chance(2, 3) { *rng.pick(&ARR_SIZES) } else { rng.below(301) };
    let phases = 1 + rng.below(3);
    let ivs = pattern(rng, n);
    // split the inserts over the phases (the first phase gets most)
    let mut cuts: Vec<usize> = (0..phases - 1).map(|_| n - rng.below(n / 3 + 1)).collect();
    cuts.push(n);
    cuts.sort();
    let mut ops: Vec<String> = vec![];
    let mut cur: Vec<(i64, i64)> = vec![];
    let mut done = 0;
    for (pi, &c) in cuts.iter().enumerate() {
        for i in done..c {
            ops.push(format!("ins:{}:{}:{}", ivs[i].0, ivs[i].1, data_for(rng, i)));
            cur.push(ivs[i]);
        }
        let inserted = c > done;
        done = c;
        // query before (re-)indexing: must be refused (also on the empty tree, also after further inserts)
        let skip_first_for_fi = fi && pi == 0;
        if !skip_first_for_fi && (inserted || pi == 0) && rng.chance(1, 2) {
            let q = query(rng, &cur);
            ops.push(format!("{}:{}:{}", if rng.chance(1, 3) { "findinto" } else { "find" }, q.0, q.1));
        }
        if !(skip_first_for_fi && rng.chance(1, 2)) {
            ops.push("index".into());
        }
        if rng.chance(1, 6) {
            ops.push("index".into());
        }
        let nq = if n <= 20 { 2 + rng.below(6) } else { 8 + rng.below(30) };
        for _ in 0..nq {
            let q = query(rng, &cur);
            ops.push(format!("{}:{}:{}", if rng.chance(1, 5) { "findinto" } else { "find" }, q.0, q.1));
        }
        if pi + 1 == cuts.len() && rng.chance(1, 3) {
            let mut pts: Vec<i64> = cur.iter().flat_map(|x| [x.0, x.1 - 1]).collect();
            pts.sort();
            pts.dedup();
            // probes from the far end first: the imaginary right spine is where the index arithmetic is delicate
            for p in pts.iter().rev().take(60) {
                ops.push(format!("find:{}:{}", p, p + 1));
            }
        }
    }
    format!("{} {}", if fi { "arrfi" } else { "arr" }, ops.join("/"))
}

fn gen_amap(rng: &mut Rng, _tier: &str) -> String {
    let loc = rng.chance(1, 4);
    let nref = 1 + rng.below(3);
    let mut refs: Vec<i64> = (0..4).collect();
    for i in (1..4).rev() {
        refs.swap(i, rng.below(i + 1));
    }
    let used = &refs[..nref];
    let nmax = if rng.chance(1, 5) { 120 } else { 30 };
    let n = 1 + rng.below(nmax);
    let ivs = pattern(rng, n);
    let mut ops: Vec<String> = vec![];
    let mut cur: Vec<(i64, i64)> = vec![];
    if rng.chance(1, 6) {
        ops.push(format!("find:{}:0:5", refs[0]));
    }
    let batch = 1 + rng.below(8);
    for (i, iv) in ivs.iter().enumerate() {
        let r = *rng.pick(used);
        let d = if loc { rng.below(2) as i64 } else { data_for(rng, i) };
        ops.push(format!("ins:{}:{}:{}:{}", r, iv.0, iv.1, d));
        cur.push(*iv);
        if (i + 1) % batch == 0 || i + 1 == n {
            for _ in 0..1 + rng.below(4) {
                let q = query(rng, &cur);
                // every reference id, present or absent
                let r = refs[rng.below(4)];
                ops.push(format!("find:{}:{}:{}", r, q.0, q.1));
            }
        }
    }
    format!("{} {}", if loc { "amaploc" } else { "amap" }, ops.join("/"))
}

fn permutations(n: usize) -> Vec<Vec<usize>> {
    fn rec(cur: &mut Vec<usize>, used: &mut Vec<bool>, n: usize, out: &mut Vec<Vec<usize>>) {
        if cur.len() == n {
            out.push(cur.clone());
            return;
        }
        for i in 0..n {
            if !used[i] {
                used[i] = true;
                cur.push(i);
                rec(cur, used, n, out);
                cur.pop();
                used[i] = false;
            }
        }
    }
    let mut out = vec![];
    rec(&mut vec![], &mut vec![false; n], n, &mut out);
    out
}

fn exhaustive(out: &mut Vec<String>) {
    // all insertion orders of 7 distinct intervals: every shape an AVL tree of 7 keys can take on the way
    let base: [(i64, i64); 7] = [(0, 3), (1, 2), (2, 9), (3, 4), (4, 6), (5, 6), (6, 8)];
    let queries: Vec<(i64, i64)> = (0..9).map(|p| (p, p + 1)).chain([(0, 9), (2, 5), (8, 9), (-1, 0)]).collect();
    let qs = |name: &str| queries.iter().map(|q| format!("{}:{}:{}", name, q.0, q.1)).collect::<Vec<_>>().join("/");
    for p in permutations(7) {
        let ins: Vec<String> =
            p.iter().enumerate().map(|(i, &k)| format!("ins:{}:{}:{}", base[k].0, base[k].1, i)).collect();
        let avl: Vec<String> = ins.iter().map(|s| format!("{}/dump", s)).collect();
        out.push(format!("avl {}/{}", avl.join("/"), qs("find")));
        out.push(format!("arr {}/index/{}", ins.join("/"), qs("find")));
    }
    // all multisets of ≤ 5 intervals over the points 0..4, inserted in sorted and in reverse order
    let ivs: Vec<(i64, i64)> = (0..4).flat_map(|s| (s + 1..=4).map(move |e| (s, e))).collect();
    let q4: Vec<(i64, i64)> = ivs.clone();
    let qs4 = |name: &str| q4.iter().map(|q| format!("{}:{}:{}", name, q.0, q.1)).collect::<Vec<_>>().join("/");
    fn multisets(k: usize, from: usize, n: usize, cur: &mut Vec<usize>, out: &mut Vec<Vec<usize>>) {
        out.push(cur.clone());
        if k == 0 {
            return;
        }
        for i in from..n {
            cur.push(i);
            multisets(k - 1, i, n, cur, out);
            cur.pop();
        }
    }
    let mut ms = vec![];
    multisets(5, 0, ivs.len(), &mut vec![], &mut ms);
    for m in ms {
        if m.is_empty() {
            continue;
        }
        for rev in [false, true] {
            let mut order = m.clone();
            if rev {
                order.reverse();
            }
            let ins: Vec<String> =
                order.iter().enumerate().map(|(i, &k)| format!("ins:{}:{}:{}", ivs[k].0, ivs[k].1, i % 2)).collect();
            out.push(format!("avl {}/dump/{}", ins.join("/"), qs4("find")));
            if !rev {
                out.push(format!("arr {}/index/{}", ins.join("/"), qs4("find")));
            }
        }
    }
}

pub fn gen(tier: &str, rng: &mut Rng, out: &mut Vec<String>) {
    let n = if tier == "thorough" { 20_000 } else { 4_000 };
    for i in 0..n {
        out.push(match i % 10 {
            0..=4 => gen_avl(rng, tier),
            5..=8 => gen_arr(rng, tier),
            _ => gen_amap(rng, tier),
        });
    }
    if tier == "thorough" {
        exhaustive(out);
    }
}
