pub mod util;
pub mod c01;
pub mod c02;
pub mod c03;
pub mod c04;
pub mod c05;
pub mod c06;
pub mod c07;
pub mod c08;
pub mod c09;
pub mod c10;
pub mod c11;
pub mod c12;
pub mod c13;
pub mod c14;
pub mod c15;
pub mod c16;
pub mod c17;
pub mod c18;
pub mod c19;
pub mod c20;

use util::Rng;

pub const PROPS: [&str; 20] = [
    "c01", "c02", "c03", "c04", "c05", "c06", "c07", "c08", "c09", "c10", "c11", "c12", "c13", "c14",
    "c15", "c16", "c17", "c18", "c19", "c20",
];

/// generate the input lines (everything before ` => `) of one property
pub fn gen(prop: &str, tier: &str, seed: u64) -> Vec<String> {
    let mut rng = Rng::new(seed);
    let mut out = Vec::new();
    match prop {
        "c01" => c01::gen(tier, &mut rng, &mut out),
        "c02" => c02::gen(tier, &mut rng, &mut out),
        "c03" => c03::gen(tier, &mut rng, &mut out),
        "c04" => c04::gen(tier, &mut rng, &mut out),
        "c05" => c05::gen(tier, &mut rng, &mut out),
        "c06" => c06::gen(tier, &mut rng, &mut out),
        "c07" => c07::gen(tier, &mut rng, &mut out),
        "c08" => c08::gen(tier, &mut rng, &mut out),
        "c09" => c09::gen(tier, &mut rng, &mut out),
        "c10" => c10::gen(tier, &mut rng, &mut out),
        "c11" => c11::gen(tier, &mut rng, &mut out),
        "c12" => c12::gen(tier, &mut rng, &mut out),
        "c13" => c13::gen(tier, &mut rng, &mut out),
        "c14" => c14::gen(tier, &mut rng, &mut out),
        "c15" => c15::gen(tier, &mut rng, &mut out),
        "c16" => c16::gen(tier, &mut rng, &mut out),
        "c17" => c17::gen(tier, &mut rng, &mut out),
        "c18" => c18::gen(tier, &mut rng, &mut out),
        "c19" => c19::gen(tier, &mut rng, &mut out),
        "c20" => c20::gen(tier, &mut rng, &mut out),
        _ => {}
    }
    out.into_iter().map(|l| format!("{} {}", prop, l)).collect()
}

/// run one input line against the real implementation; Ok(observation) or Err(reason the line is not a case)
pub fn exec(line: &str) -> Result<String, String> {
    let toks: Vec<&str> = line.split(' ').filter(|t| !t.is_empty()).collect();
    if toks.is_empty() {
        return Err("empty".into());
    }
    let rest = &toks[1..];
    match toks[0] {
        "c01" => c01::exec(rest),
        "c02" => c02::exec(rest),
        "c03" => c03::exec(rest),
        "c04" => c04::exec(rest),
        "c05" => c05::exec(rest),
        "c06" => c06::exec(rest),
        "c07" => c07::exec(rest),
        "c08" => c08::exec(rest),
        "c09" => c09::exec(rest),
        "c10" => c10::exec(rest),
        "c11" => c11::exec(rest),
        "c12" => c12::exec(rest),
        "c13" => c13::exec(rest),
        "c14" => c14::exec(rest),
        "c15" => c15::exec(rest),
        "c16" => c16::exec(rest),
        "c17" => c17::exec(rest),
        "c18" => c18::exec(rest),
        "c19" => c19::exec(rest),
        "c20" => c20::exec(rest),
        p => Err(format!("unknown property {}", p)),
    }
}
