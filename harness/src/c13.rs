//! C13 — BED and GFF/GTF records survive write → read; comments skipped; malformed lines are errors.
//!
//! ```text
//! bed <recs> <comments> <fault>            recs  = `/`-list of `chrom;start;end[;aux…]`   (`-` = no record)
//! gff <gff3|gff2|gtf2> <recs> <comments> <fault> <style>
//!                                          recs  = `/`-list of `seq;src;type;start;end;score;strand;phase;attrs`
//!                                          phase = n|0|1|2 ; attrs = `,`-list of `key:v1:v2…` in insertion order (`-` = none)
//! ```
//! String fields are hex (`-` = empty).  comments = `,`-list of `pos:hex` — the line `hex` (empty, or starting
//! with `#`) is inserted before record `pos`.  fault = `none` | `set:<line>:<col>:<hex>` | `add:<line|all>:<hex>` |
//! `del:<line>:<col>` | `cut:<o1>:<o2>…` and is applied to the bytes the real writer produced.
//!
//! style = plain|spaced|quoted: the harness additionally writes the records itself in the *intended* format
//! (every value of every key; `spaced` = `; ` between attributes and a trailing `;`, `quoted` = additionally every
//! value in double quotes, the usual GTF look) and lets the real reader read that: `m:<hex>=<results>` (GFF only).
//!
//! Observation: `w:<hex> r:<results> c:<hex>=<results> rw:<hex|x> f:<faulted hex>=<results>` (for `cut`:
//! `f:<results>/<results>…`, one per offset; for `none`: `f:-`).  `w` = bytes written by the real writer, `r` = the
//! real reader on `w`, `c` = `w` with the comment lines inserted at record boundaries (a line feed outside quotes)
//! and the real reader on that, `rw` = the records of `r` written again (GFF only; `x` when `r` has an error).  results = `|`-list of `err` / `ok=<record>`;
//! BED record = `chrom;start;end;aux…~name~score~strand` (accessors; `N` = None, strand f|r|n);
//! GFF record = `seq;src;type;start;end;<score N|number>;<strand f|r|n>;<phase>;<attrs, keys sorted>`.
//!
//! Domain (recorded in meta/C13.json): text columns are arbitrary ASCII byte strings (0x00..0x7f: `"`, TAB, CR, LF,
//! backslash, `#`, blanks, empty …; the csv layer is modelled, the model is byte-transparent, non-ASCII is left out
//! only because truncation could cut a UTF-8 sequence), BED records of one case have the same number of columns,
//! attribute keys/values are non-empty ASCII, avoid the dialect's delimiters and TAB, do not begin or end with a
//! quote character, keys do not begin with a blank.  A first column that starts with `#` and needs no csv quotes is
//! written as a line that begins with `#`, i.e. a comment line of the format: such a record is outside the domain.
//! It is generated on purpose, rarely: the driver then only demands that nothing panics and that the records before
//! it round-trip (tag `hash-start-outside-domain`).
//! Styles of the harness' own writer: `plain`, `spaced`, `quoted` as before (columns csv-quoted where necessary,
//! incl. a first column that starts with `#`), `csvq` = every column in csv quotes (`QuoteStyle::Always` look).
use crate::util::*;
use bio::io::{bed, gff};
use std::cell::RefCell;
use std::convert::TryInto;
use std::io::Write;
use std::rc::Rc;

#[derive(Clone)]
struct Shared(Rc<RefCell<Vec<u8>>>);
impl Write for Shared {
    fn write(&mut self, b: &[u8]) -> std::io::Result<usize> {
        self.0.borrow_mut().extend_from_slice(b);
        Ok(b.len())
    }
    fn flush(&mut self) -> std::io::Result<()> {
        Ok(())
    }
}

fn field_ok(b: &[u8]) -> bool {
    b.iter().all(|&c| c < 0x80)
}

/// a field as csv's `QuoteStyle::Necessary` would write it (`force`: in quotes regardless)
fn csv_quote(b: &[u8], force: bool) -> Vec<u8> {
    if force || b.iter().any(|&c| c == b'\t' || c == b'"' || c == b'\r' || c == b'\n') {
        let mut o = vec![b'"'];
        for &c in b {
            if c == b'"' {
                o.push(b'"');
            }
            o.push(c);
        }
        o.push(b'"');
        o
    } else {
        b.to_vec()
    }
}

fn s(b: &[u8]) -> String {
    String::from_utf8(b.to_vec()).unwrap()
}

// ------------------------------------------------------------------------------------------------ case model

#[derive(Clone)]
struct BedRec {
    chrom: Vec<u8>,
    start: u64,
    end: u64,
    aux: Vec<Vec<u8>>,
}

#[derive(Clone)]
struct GffRec {
    seq: Vec<u8>,
    src: Vec<u8>,
    typ: Vec<u8>,
    start: u64,
    end: u64,
    score: Vec<u8>,
    strand: Vec<u8>,
    phase: Option<u8>,
    attrs: Vec<(Vec<u8>, Vec<Vec<u8>>)>,
}

fn dialect(d: &str) -> Result<(gff::GffType, u8, u8, u8), String> {
    match d {
        "gff3" => Ok((gff::GffType::GFF3, b'=', b';', b',')),
        "gff2" => Ok((gff::GffType::GFF2, b' ', b';', 0)),
        "gtf2" => Ok((gff::GffType::GTF2, b' ', b';', 0)),
        _ => Err("dialect".into()),
    }
}

fn attr_ok(b: &[u8], delim: u8, term: u8, vdelim: u8, is_key: bool) -> bool {
    let q = |c: u8| c == b'\'' || c == b'"';
    !b.is_empty()
        && field_ok(b)
        && !b.contains(&b'\t')
        && !b.contains(&delim)
        && !b.contains(&term)
        && (is_key || !b.contains(&vdelim))
        && !q(b[0])
        && !q(b[b.len() - 1])
        && !(is_key && b[0] == b' ')
}

fn parse_bed(tok: &str) -> Result<Vec<BedRec>, String> {
    let mut out = vec![];
    for r in split_list(tok, '/') {
        let f: Vec<&str> = r.split(';').collect();
        if f.len() < 3 {
            return Err("bed record needs chrom;start;end".into());
        }
        let rec = BedRec {
            chrom: unhex(f[0])?,
            start: parse(f[1])?,
            end: parse(f[2])?,
            aux: f[3..].iter().map(|x| unhex(x)).collect::<Result<_, _>>()?,
        };
        if !field_ok(&rec.chrom) || !rec.aux.iter().all(|a| field_ok(a)) {
            return Err("field outside the domain".into());
        }
        out.push(rec);
    }
    if out.windows(2).any(|w| w[0].aux.len() != w[1].aux.len()) {
        return Err("BED records of one file must have the same number of columns".into());
    }
    Ok(out)
}

fn parse_gff(tok: &str, d: &str) -> Result<Vec<GffRec>, String> {
    let (_, delim, term, vdelim) = dialect(d)?;
    let mut out = vec![];
    for r in split_list(tok, '/') {
        let f: Vec<&str> = r.split(';').collect();
        if f.len() != 9 {
            return Err("gff record needs 9 fields".into());
        }
        let phase = match f[7] {
            "n" => None,
            "0" => Some(0),
            "1" => Some(1),
            "2" => Some(2),
            _ => return Err("phase".into()),
        };
        let mut attrs = vec![];
        for a in split_list(f[8], ',') {
            let kv: Vec<&str> = a.split(':').collect();
            if kv.len() < 2 {
                return Err("attribute needs key:value".into());
            }
            let k = unhex(kv[0])?;
            let vs: Vec<Vec<u8>> = kv[1..].iter().map(|x| unhex(x)).collect::<Result<_, _>>()?;
            if !attr_ok(&k, delim, term, vdelim, true) || !vs.iter().all(|v| attr_ok(v, delim, term, vdelim, false)) {
                return Err("attribute outside the domain".into());
            }
            attrs.push((k, vs));
        }
        let rec = GffRec {
            seq: unhex(f[0])?,
            src: unhex(f[1])?,
            typ: unhex(f[2])?,
            start: parse(f[3])?,
            end: parse(f[4])?,
            score: unhex(f[5])?,
            strand: unhex(f[6])?,
            phase,
            attrs,
        };
        if ![&rec.seq, &rec.src, &rec.typ, &rec.score, &rec.strand].iter().all(|x| field_ok(x)) {
            return Err("field outside the domain".into());
        }
        out.push(rec);
    }
    Ok(out)
}

fn parse_comments(tok: &str, nrec: usize) -> Result<Vec<(usize, Vec<u8>)>, String> {
    let mut out = vec![];
    for c in split_list(tok, ',') {
        let (p, h) = c.split_once(':').ok_or("comment needs pos:hex")?;
        // `eof:<hex>`: a comment line at the very end of the file that is NOT terminated by a newline
        let pos: usize = if p == "eof" { usize::MAX } else { parse(p)? };
        let line = unhex(h)?;
        // a comment line (`#…`, any ASCII but LF) or a blank line (empty, or carriage returns only)
        let printable = line.iter().all(|&c| c < 0x80 && c != b'\n');
        let blank = line.iter().all(|&c| c == b'\r');
        if (pos > nrec && pos != usize::MAX) || !printable || !(blank || line[0] == b'#') {
            return Err("comment outside the domain".into());
        }
        if pos == usize::MAX && (line.is_empty() || out.iter().any(|(q, _)| *q == usize::MAX)) {
            return Err("eof comment must be one non-empty # line".into());
        }
        out.push((pos, line));
    }
    Ok(out)
}

/// the written file with the comment lines inserted before the records they are attached to.  Record boundaries
/// are the line feeds outside quotes (quote parity: whenever the csv reader is inside a quoted field the number
/// of quotes seen so far is odd, so a line feed at even parity always ends a record).
fn with_comments(w: &[u8], comments: &[(usize, Vec<u8>)]) -> Result<Vec<u8>, String> {
    let mut lines: Vec<&[u8]> = vec![];
    let (mut begin, mut inq) = (0usize, false);
    for (i, &c) in w.iter().enumerate() {
        if c == b'"' {
            inq = !inq;
        } else if c == b'\n' && !inq {
            lines.push(&w[begin..i]);
            begin = i + 1;
        }
    }
    let tail = &w[begin..];
    let mut out = vec![];
    for i in 0..=lines.len() {
        for (p, c) in comments {
            if *p == usize::MAX {
                continue;
            }
            if *p == i || (i == lines.len() && *p > i) {
                out.extend_from_slice(c);
                out.push(b'\n');
            }
        }
        if i < lines.len() {
            out.extend_from_slice(lines[i]);
            out.push(b'\n');
        }
    }
    out.extend_from_slice(tail); // bytes after the last boundary (none for a well-formed file)
    for (p, c) in comments {
        if *p == usize::MAX {
            out.extend_from_slice(c); // no terminating newline
        }
    }
    Ok(out)
}

enum Fault {
    None,
    Bytes(Vec<u8>),
    Cuts(Vec<usize>),
}

fn apply_fault(w: &[u8], tok: &str) -> Result<Fault, String> {
    let p: Vec<&str> = tok.split(':').collect();
    if p[0] == "none" && p.len() == 1 {
        return Ok(Fault::None);
    }
    if p[0] == "cut" {
        let mut offs = vec![];
        for o in &p[1..] {
            let o: usize = parse(o)?;
            if o > w.len() {
                return Err("cut beyond the end".into());
            }
            offs.push(o);
        }
        if offs.is_empty() {
            return Err("cut needs offsets".into());
        }
        return Ok(Fault::Cuts(offs));
    }
    let mut lines: Vec<Vec<Vec<u8>>> = w
        .split(|&c| c == b'\n')
        .map(|l| l.split(|&c| c == b'\t').map(|f| f.to_vec()).collect())
        .collect();
    if lines.last().map(|l| l.len() == 1 && l[0].is_empty()).unwrap_or(false) {
        lines.pop();
    }
    let n = lines.len();
    match (p[0], p.len()) {
        ("set", 4) => {
            let (l, c): (usize, usize) = (parse(p[1])?, parse(p[2])?);
            let b = unhex(p[3])?;
            if l >= n || c >= lines[l].len() || !field_ok(&b) {
                return Err("set outside the file / domain".into());
            }
            lines[l][c] = b;
        }
        ("add", 3) => {
            let b = unhex(p[2])?;
            if !field_ok(&b) || n == 0 {
                return Err("add outside the domain".into());
            }
            if p[1] == "all" {
                for l in lines.iter_mut() {
                    l.push(b.clone());
                }
            } else {
                let l: usize = parse(p[1])?;
                if l >= n {
                    return Err("add outside the file".into());
                }
                lines[l].push(b);
            }
        }
        ("del", 3) => {
            let (l, c): (usize, usize) = (parse(p[1])?, parse(p[2])?);
            if l >= n || c >= lines[l].len() || lines[l].len() < 2 {
                return Err("del outside the file".into());
            }
            lines[l].remove(c);
        }
        _ => return Err("fault".into()),
    }
    let mut out = vec![];
    for l in &lines {
        out.extend_from_slice(&l.join(&b'\t'));
        out.push(b'\n');
    }
    Ok(Fault::Bytes(out))
}

// ------------------------------------------------------------------------------------------------ real API

fn opt_hex(x: Option<&str>) -> String {
    match x {
        None => "N".into(),
        Some(v) => hex(v.as_bytes()),
    }
}

fn bed_read(bytes: &[u8]) -> String {
    let mut reader = bed::Reader::new(bytes);
    let mut res = vec![];
    for r in reader.records() {
        match r {
            Err(_) => res.push("err".to_string()),
            Ok(rec) => {
                let mut f = vec![hex(rec.chrom().as_bytes()), rec.start().to_string(), rec.end().to_string()];
                let mut i = 3;
                while let Some(a) = rec.aux(i) {
                    f.push(hex(a.as_bytes()));
                    i += 1;
                }
                let strand = match rec.strand() {
                    Some(bio_types::strand::Strand::Forward) => "f",
                    Some(bio_types::strand::Strand::Reverse) => "r",
                    _ => "n",
                };
                res.push(format!("ok={}~{}~{}~{}", f.join(";"), opt_hex(rec.name()), opt_hex(rec.score()), strand));
            }
        }
    }
    join(&res, "|")
}

fn bed_write(recs: &[BedRec]) -> Result<Vec<u8>, String> {
    let buf = Shared(Rc::new(RefCell::new(vec![])));
    {
        let mut w = bed::Writer::new(buf.clone());
        for r in recs {
            let mut rec = bed::Record::new();
            rec.set_chrom(&s(&r.chrom));
            rec.set_start(r.start);
            rec.set_end(r.end);
            for a in &r.aux {
                rec.push_aux(&s(a));
            }
            w.write(&rec).map_err(|e| format!("writer refused a record of the domain: {}", e))?;
        }
    }
    let out = buf.0.borrow().clone();
    Ok(out)
}

fn gff_read(bytes: &[u8], t: gff::GffType) -> (String, Vec<gff::Record>, bool) {
    let mut reader = gff::Reader::new(bytes, t);
    let mut res = vec![];
    let mut recs = vec![];
    let mut all_ok = true;
    for r in reader.records() {
        match r {
            Err(_) => {
                all_ok = false;
                res.push("err".to_string())
            }
            Ok(rec) => {
                let score = rec.score().map(|x| x.to_string()).unwrap_or_else(|| "N".into());
                let strand = match rec.strand() {
                    Some(bio_types::strand::Strand::Forward) => "f",
                    Some(bio_types::strand::Strand::Reverse) => "r",
                    _ => "n",
                };
                let ph: Option<u8> = rec.phase().clone().try_into().unwrap();
                let phase = ph.map(|x| x.to_string()).unwrap_or_else(|| "n".into());
                let mut kv: Vec<(Vec<u8>, Vec<String>)> = rec
                    .attributes()
                    .iter_all()
                    .map(|(k, vs)| (k.as_bytes().to_vec(), vs.iter().map(|v| hex(v.as_bytes())).collect()))
                    .collect();
                kv.sort();
                let attrs: Vec<String> = kv.iter().map(|(k, vs)| format!("{}:{}", hex(k), vs.join(":"))).collect();
                res.push(format!(
                    "ok={};{};{};{};{};{};{};{};{}",
                    hex(rec.seqname().as_bytes()),
                    hex(rec.source().as_bytes()),
                    hex(rec.feature_type().as_bytes()),
                    rec.start(),
                    rec.end(),
                    score,
                    strand,
                    phase,
                    join(&attrs, ",")
                ));
                recs.push(rec);
            }
        }
    }
    (join(&res, "|"), recs, all_ok)
}

fn gff_write_real(recs: &[gff::Record], t: gff::GffType) -> Result<Vec<u8>, String> {
    let buf = Shared(Rc::new(RefCell::new(vec![])));
    {
        let mut w = gff::Writer::new(buf.clone(), t);
        for r in recs {
            w.write(r).map_err(|e| format!("writer refused a record of the domain: {}", e))?;
        }
    }
    let out = buf.0.borrow().clone();
    Ok(out)
}

fn gff_build(recs: &[GffRec]) -> Vec<gff::Record> {
    recs.iter()
        .map(|r| {
            let mut rec = gff::Record::new();
            *rec.seqname_mut() = s(&r.seq);
            *rec.source_mut() = s(&r.src);
            *rec.feature_type_mut() = s(&r.typ);
            *rec.start_mut() = r.start;
            *rec.end_mut() = r.end;
            *rec.score_mut() = s(&r.score);
            *rec.strand_mut() = s(&r.strand);
            *rec.phase_mut() = gff::Phase::from(r.phase);
            for (k, vs) in &r.attrs {
                for v in vs {
                    rec.attributes_mut().insert(s(k), s(v));
                }
            }
            rec
        })
        .collect()
}

/// the records in the intended file format, written by the harness (not by rust-bio): reader-only test input
fn intended_bytes(recs: &[GffRec], d: &str, style: &str) -> Result<Vec<u8>, String> {
    let (_, delim, term, vdelim) = dialect(d)?;
    let (sep, trailing, quote): (&[u8], bool, bool) = match style {
        "plain" => (&[term][..], false, false),
        "spaced" => (&[term, b' '][..], true, false),
        "quoted" => (&[term, b' '][..], true, true),
        "csvq" => (&[term][..], false, false),
        _ => return Err("style".into()),
    };
    let sep = sep.to_vec();
    let q = |v: &[u8]| -> Vec<u8> {
        if quote {
            let mut o = vec![b'"'];
            o.extend_from_slice(v);
            o.push(b'"');
            o
        } else {
            v.to_vec()
        }
    };
    let mut out = vec![];
    for r in recs {
        let mut segs: Vec<Vec<u8>> = vec![];
        for (k, vs) in &r.attrs {
            if vdelim == 0 {
                for v in vs {
                    let mut s = k.clone();
                    s.push(delim);
                    s.extend(q(v));
                    segs.push(s);
                }
            } else {
                let mut s = k.clone();
                s.push(delim);
                s.extend(vs.iter().map(|v| q(v)).collect::<Vec<_>>().join(&vdelim));
                segs.push(s);
            }
        }
        let mut attrs = segs.join(&sep[..]);
        if trailing && !segs.is_empty() {
            attrs.push(term);
        }
        let phase = r.phase.map(|p| p.to_string()).unwrap_or_else(|| ".".into());
        let fields: Vec<Vec<u8>> = vec![
            r.seq.clone(),
            r.src.clone(),
            r.typ.clone(),
            r.start.to_string().into_bytes(),
            r.end.to_string().into_bytes(),
            r.score.clone(),
            r.strand.clone(),
            phase.into_bytes(),
            attrs,
        ];
        // csv layer: every column in quotes (`csvq`), else quotes where the content needs them; a first column
        // that starts with `#` is quoted as well (it would be taken for a comment); the attribute column stays as
        // it is unless it cannot be read literally (real GTF files carry `key "value";` without csv quoting)
        let all = style == "csvq";
        let cols: Vec<Vec<u8>> = fields
            .iter()
            .enumerate()
            .map(|(i, f)| {
                if i == 8 && !all {
                    let must = f.first() == Some(&b'"') || f.iter().any(|&c| c == b'\t' || c == b'\r' || c == b'\n');
                    if must {
                        csv_quote(f, true)
                    } else {
                        f.clone()
                    }
                } else {
                    csv_quote(f, all || (i == 0 && f.first() == Some(&b'#')))
                }
            })
            .collect();
        out.extend(cols.join(&b'\t'));
        out.push(b'\n');
    }
    Ok(out)
}

pub fn exec(toks: &[&str]) -> Result<String, String> {
    if toks.is_empty() {
        return Err("arity".into());
    }
    match toks[0] {
        "bed" => {
            if toks.len() != 4 {
                return Err("arity".into());
            }
            let recs = parse_bed(toks[1])?;
            let comments = parse_comments(toks[2], recs.len())?;
            let w = bed_write(&recs)?;
            let fault = apply_fault(&w, toks[3])?;
            let r = bed_read(&w);
            let cb = with_comments(&w, &comments)?;
            let c = format!("{}={}", hex(&cb), bed_read(&cb));
            let f = match fault {
                Fault::None => "-".to_string(),
                Fault::Bytes(b) => format!("{}={}", hex(&b), bed_read(&b)),
                Fault::Cuts(offs) => offs.iter().map(|&o| bed_read(&w[..o])).collect::<Vec<_>>().join("/"),
            };
            Ok(format!("w:{} r:{} c:{} rw:x f:{}", hex(&w), r, c, f))
        }
        "gff" => {
            if toks.len() != 6 {
                return Err("arity".into());
            }
            let (t, _, _, _) = dialect(toks[1])?;
            let recs = parse_gff(toks[2], toks[1])?;
            let comments = parse_comments(toks[3], recs.len())?;
            let w = gff_write_real(&gff_build(&recs), t)?;
            let fault = apply_fault(&w, toks[4])?;
            let (r, back, all_ok) = gff_read(&w, t);
            let rw = if all_ok { hex(&gff_write_real(&back, t)?) } else { "x".to_string() };
            let cb = with_comments(&w, &comments)?;
            let c = format!("{}={}", hex(&cb), gff_read(&cb, t).0);
            let f = match fault {
                Fault::None => "-".to_string(),
                Fault::Bytes(b) => format!("{}={}", hex(&b), gff_read(&b, t).0),
                Fault::Cuts(offs) => offs.iter().map(|&o| gff_read(&w[..o], t).0).collect::<Vec<_>>().join("/"),
            };
            let mb = intended_bytes(&recs, toks[1], toks[5])?;
            let m = format!("{}={}", hex(&mb), gff_read(&mb, t).0);
            Ok(format!("w:{} r:{} c:{} rw:{} f:{} m:{}", hex(&w), r, c, rw, f, m))
        }
        _ => Err("op".into()),
    }
}

// ------------------------------------------------------------------------------------------------ generators

const PLAIN: &[u8] = b"abcXYZ019_.-";
const RICH: &[u8] = b"ab1 .-_#'=;,:+|/\\(){}<>@!?*&%$^~`[]";

fn rand_field(rng: &mut Rng, allow_empty: bool) -> Vec<u8> {
    let len = match rng.below(8) {
        0 if allow_empty => 0,
        0 | 1 => 1,
        _ => 1 + rng.below(9),
    };
    let alpha = if rng.chance(1, 3) { RICH } else { PLAIN };
    rng.seq(alpha, len)
}

/// bytes with a meaning in the csv layer (quote twice as likely), a blank, and two ordinary ones
const SPECIAL: &[u8] = b"\"\"\\\t\n\r# ab'";
/// hand-picked contents: quotes at either end, inside, alone, doubled; backslash next to a quote; TAB / LF / CR /
/// CRLF inside or alone; leading `#` with and without a byte that forces quotes; blanks at the ends; control bytes
const NASTY: &[&[u8]] = &[
    b"\"", b"\"\"", b"\"\"\"", b"a\"b", b"\"a\"", b"\"a", b"a\"", b"\"\\", b"\\\"", b"a\\b\"c", b"\\", b"a\\",
    b"\\\tx", b"\\\n", b"\t", b"a\tb", b"\n", b"a\nb", b"\r", b"a\rb", b"\r\n", b"a\r\nb", b"\n\n",
    b"#", b"#a", b"a#", b"#\"", b"#\ta", b"# x\n", b" ", b" a", b"a ", b" a ", b"\x00", b"\x7f", b"a\x0bb",
    b"\"a\"\"b\"", b"\",\"", b"'\"'", b"\"\t\"", b"\"\n\"", b"\\\\\"",
];

/// a field of the csv-sensitive classes (only in files generated in `q` mode)
fn rand_special(rng: &mut Rng) -> Vec<u8> {
    if rng.chance(1, 2) {
        rng.pick(NASTY).to_vec()
    } else {
        let len = 1 + rng.below(6);
        rng.seq(SPECIAL, len)
    }
}

/// `q`: the file is generated in csv-sensitive mode, where every other text field is a special one
fn rand_text(rng: &mut Rng, q: bool, allow_empty: bool) -> Vec<u8> {
    if q && rng.chance(1, 2) {
        rand_special(rng)
    } else {
        rand_field(rng, allow_empty)
    }
}

/// first column: a leading `#` that csv does not quote (the written line is a comment line: outside the domain) is
/// generated only in `q` mode and there only rarely
fn rand_first_field(rng: &mut Rng, q: bool) -> Vec<u8> {
    loop {
        let f = rand_text(rng, q, true);
        let lost = f.first() == Some(&b'#') && !f.iter().any(|&c| c == b'\t' || c == b'"' || c == b'\r' || c == b'\n');
        if !lost || (q && rng.chance(1, 8)) {
            return f;
        }
    }
}


// ------------------------------------------------------------------------------------- dictionary (seed C13-6)
//
// Keywords and near-keywords of BED / UCSC / GFF / GTF / VCF-like files and of typed readers (numbers, booleans,
// missing-value spellings).  Random names never hit a word a reader might treat specially (a header keyword tested
// by prefix, a placeholder, a number spelling); the dictionary puts each of them into the text columns as a whole
// field, as the beginning of a field and as its end.  No entry starts with `#` (that is the comment domain boundary).
const DICT: &[&str] = &[
    // UCSC header lines and their settings
    "track", "browser", "track name=pairedReads", "browser position chr7:127471196-127495720", "browser hide all",
    "track type=bedGraph", "name", "description", "visibility", "itemRgb", "useScore", "type", "bedGraph", "wiggle_0",
    "variableStep", "fixedStep", "position", "hide", "pack", "dense", "full", "priority", "db",
    // BED column names, usual reference names
    "chrom", "chromStart", "chromEnd", "score", "strand", "thickStart", "thickEnd", "blockCount", "blockSizes",
    "blockStarts", "chr", "chr1", "chrX", "chrM", "chrUn", "chrUn_gl000220", "1", "X", "MT", "scaffold_1", "contig", "*",
    // GFF / GTF directives (without the leading ##), column names, attribute keys, feature types
    "gff-version", "gff-version 3", "sequence-region", "sequence-region chr1 1 100", "FASTA", ">chr1", "feature-ontology",
    "species", "genome-build", "seqid", "seqname", "source", "feature", "start", "end", "phase", "frame", "attributes",
    "attribute", "group", "ID", "Name", "Alias", "Parent", "Target", "Gap", "Derives_from", "Note", "Dbxref",
    "Ontology_term", "Is_circular", "gene_id", "transcript_id", "exon_number", "gene_name", "gene_biotype", "gene",
    "mRNA", "exon", "CDS", "transcript", "region", "start_codon", "stop_codon", "five_prime_UTR",
    // VCF / SAM-like
    "fileformat=VCFv4.2", "CHROM", "POS", "REF", "ALT", "QUAL", "FILTER", "INFO", "FORMAT", "PASS", "@HD", "@SQ", "SN:chr1",
    // placeholders, missing values, numbers and booleans as text
    ".", "..", "+", "-", "?", "+-", "NA", "N/A", "na", "nan", "NaN", "inf", "-inf", "Infinity", "null", "NULL", "None",
    "nil", "none", "true", "false", "TRUE", "True", "yes", "no", "0", "-0", "00", "007", "+5", "-1", "0x1", "0x1f", "1e3",
    "1E3", "1.0", "1.5", ".5", "5.", "1_000", "1,000", "18446744073709551615", "18446744073709551616", "0b1", "0o7",
    // words of line-oriented formats in general
    "header", "comment", "end", "END", "EOF", "eof", "REM", "//", "--", "!", "%", ">", "@", "=", "==", "", " ",
];
const DICT_SUFFIX: &[&str] = &["_0012", "A", "ing", "ing-contig", "1", ".1", "_", "s", "2", " x", "=x", ":1-2", "-", "."];
const DICT_PREFIX: &[&str] = &["my_", "x", "_", "no", "1", ".", "un", "chr", "-", " "];

fn cat(a: &[u8], b: &[u8]) -> Vec<u8> {
    let mut v = a.to_vec();
    v.extend_from_slice(b);
    v
}

/// the dictionary word `w` in variant `v`: whole, as a prefix (with a suffix), as a suffix, case changed, two words
fn dict_variant(w: &str, v: usize, i: usize) -> Vec<u8> {
    let b = w.as_bytes();
    match v % 6 {
        0 => b.to_vec(),
        1 => cat(b, DICT_SUFFIX[i % DICT_SUFFIX.len()].as_bytes()),
        2 => cat(DICT_PREFIX[i % DICT_PREFIX.len()].as_bytes(), b),
        3 => {
            if i % 2 == 0 {
                w.to_ascii_uppercase().into_bytes()
            } else {
                let mut c = w.to_ascii_lowercase().into_bytes();
                if let Some(f) = c.first_mut() {
                    *f = f.to_ascii_uppercase();
                }
                c
            }
        }
        4 => cat(&cat(b, [" ", "=", "_", ":", "-", "."][i % 6].as_bytes()), DICT[(i * 7 + 3) % DICT.len()].as_bytes()),
        _ => cat(b, b),
    }
}

fn dict_word(rng: &mut Rng) -> Vec<u8> {
    let w = *rng.pick(DICT);
    let v = match rng.below(10) {
        0..=3 => 0,
        4 | 5 => 1,
        6 => 2,
        7 => 3,
        8 => 4,
        _ => 5,
    };
    dict_variant(w, v, rng.below(1 << 16))
}

/// a dictionary word as first column: never one that starts with `#` (none does), kept as it is otherwise
fn dict_first(rng: &mut Rng) -> Vec<u8> {
    loop {
        let f = dict_word(rng);
        if f.first() != Some(&b'#') {
            return f;
        }
    }
}

/// a dictionary word cut down to the attribute domain of the dialect (delimiters and TAB removed, no quote
/// character at the ends, keys do not start with a blank); `x` when nothing is left
fn dict_attr(word: Vec<u8>, delim: u8, term: u8, vdelim: u8, is_key: bool) -> Vec<u8> {
    let mut t: Vec<u8> = word.into_iter().filter(|&c| c != b'\t' && c != delim && c != term && (is_key || c != vdelim)).collect();
    while matches!(t.first(), Some(b'\'') | Some(b'"')) || (is_key && t.first() == Some(&b' ')) {
        t.remove(0);
    }
    while matches!(t.last(), Some(b'\'') | Some(b'"')) {
        t.pop();
    }
    if attr_ok(&t, delim, term, vdelim, is_key) {
        t
    } else {
        b"x".to_vec()
    }
}

/// GFF score column: the spellings the property leaves open as numbers (`+5`, `0x1f`, leading zeros — accepted by some
/// integer parsers, `Tsv.readU64` = unspec) have no determined `score()` view, so they are not used there
fn score_unspecified(b: &[u8]) -> bool {
    let digits = |x: &[u8]| !x.is_empty() && x.iter().all(|c| c.is_ascii_digit());
    (digits(b) && b.len() > 1 && b[0] == b'0') || (b.first() == Some(&b'+') && digits(&b[1..])) || b.starts_with(b"0x")
}

/// dictionary mode of a BED file: every other chrom and a third of the optional columns become dictionary words
fn dictify_bed(rng: &mut Rng, recs: &mut [BedRec]) {
    for r in recs.iter_mut() {
        if rng.chance(1, 2) {
            r.chrom = dict_first(rng);
        }
        for a in r.aux.iter_mut() {
            if rng.chance(1, 3) {
                *a = dict_word(rng);
            }
        }
    }
}

/// dictionary mode of a GFF file: seqname / source / type, a share of score and strand, attribute keys and values
fn dictify_gff(rng: &mut Rng, recs: &mut [GffRec], delim: u8, term: u8, vdelim: u8, multi: bool) {
    for r in recs.iter_mut() {
        if rng.chance(1, 2) {
            r.seq = dict_first(rng);
        }
        if rng.chance(1, 2) {
            r.src = dict_word(rng);
        }
        if rng.chance(1, 2) {
            r.typ = dict_word(rng);
        }
        if rng.chance(1, 4) {
            let w = dict_word(rng);
            if !score_unspecified(&w) {
                r.score = w;
            }
        }
        if rng.chance(1, 6) {
            r.strand = dict_word(rng);
        }
        for j in 0..r.attrs.len() {
            if rng.chance(1, 2) {
                let k = dict_attr(dict_word(rng), delim, term, vdelim, true);
                // single-valued files keep their keys distinct
                if multi || !r.attrs.iter().any(|(k2, _)| *k2 == k) {
                    r.attrs[j].0 = k;
                }
            }
            for v in r.attrs[j].1.iter_mut() {
                if rng.chance(1, 2) {
                    *v = dict_attr(dict_word(rng), delim, term, vdelim, false);
                }
            }
        }
    }
}

/// systematic part: for every dictionary word one BED file and one GFF file whose first columns are the word as a
/// whole, with a suffix and with a prefix (three records between two ordinary ones), the other text columns taken
/// from the neighbouring entries; no fault, no comment lines (a lost or changed record is the only possible failure)
fn gen_dict_files(out: &mut Vec<String>) {
    let n = DICT.len();
    for (i, w) in DICT.iter().enumerate() {
        let firsts = [dict_variant(w, 0, i), dict_variant(w, 1, i), dict_variant(w, 2, i), dict_variant(w, 3 + i % 3, i)];
        let nb = |d: usize, v: usize| dict_variant(DICT[(i + d) % n], v, i + d);
        // BED: k cycles through 0, 1, 3, 6
        let k = [0usize, 1, 3, 6][i % 4];
        let mut recs = vec![BedRec { chrom: b"chr1".to_vec(), start: 5, end: 5000, aux: (0..k).map(|j| nb(j + 1, 0)).collect() }];
        for (j, f) in firsts.iter().enumerate() {
            if f.first() == Some(&b'#') {
                continue;
            }
            recs.push(BedRec { chrom: f.clone(), start: 10 + j as u64, end: 20 + i as u64, aux: (0..k).map(|c| nb(c + j, (c + j) % 6)).collect() });
        }
        recs.push(BedRec { chrom: b"chr2".to_vec(), start: 3, end: 5005, aux: (0..k).map(|j| nb(j + 2, 1)).collect() });
        out.push(format!("bed {} - none", recs.iter().map(fmt_bed).collect::<Vec<_>>().join("/")));
        // GFF: dialect and style cycle
        let d = ["gff3", "gff2", "gtf2"][i % 3];
        let (_, delim, term, vdelim) = dialect(d).unwrap();
        let mut grecs = vec![];
        for (j, f) in firsts.iter().enumerate() {
            if f.first() == Some(&b'#') {
                continue;
            }
            let mut attrs = vec![(dict_attr(nb(j, 0), delim, term, vdelim, true), vec![dict_attr(nb(j + 1, j), delim, term, vdelim, false)])];
            let k2 = dict_attr(nb(j + 5, 1), delim, term, vdelim, true);
            if k2 != attrs[0].0 {
                attrs.push((k2, vec![dict_attr(nb(j + 6, 2), delim, term, vdelim, false)]));
            }
            grecs.push(GffRec {
                seq: f.clone(),
                src: nb(j + 2, j % 3),
                typ: nb(j + 3, (j + 1) % 3),
                start: 1 + j as u64,
                end: 100 + i as u64,
                score: if j == 1 && !score_unspecified(&nb(j + 4, 0)) { nb(j + 4, 0) } else { b".".to_vec() },
                strand: [&b"+"[..], b"-", b".", b"?"][j % 4].to_vec(),
                phase: [None, Some(0), Some(1), Some(2)][(i + j) % 4],
                attrs,
            });
        }
        let style = ["plain", "spaced", "quoted", "csvq"][i % 4];
        out.push(format!("gff {} {} - none {}", d, grecs.iter().map(fmt_gff).collect::<Vec<_>>().join("/"), style));
    }
}

fn rand_u64(rng: &mut Rng) -> u64 {
    match rng.below(10) {
        0 => 0,
        1 => u64::MAX,
        2 => rng.next(),
        3 => 10u64.pow(rng.below(20) as u32),
        4 => 10u64.pow(1 + rng.below(19) as u32) - 1,
        _ => rng.below(100_000) as u64,
    }
}

fn fmt_bed(r: &BedRec) -> String {
    let mut f = vec![hex(&r.chrom), r.start.to_string(), r.end.to_string()];
    f.extend(r.aux.iter().map(|a| hex(a)));
    f.join(";")
}

fn fmt_gff(r: &GffRec) -> String {
    let attrs: Vec<String> = r
        .attrs
        .iter()
        .map(|(k, vs)| format!("{}:{}", hex(k), vs.iter().map(|v| hex(v)).collect::<Vec<_>>().join(":")))
        .collect();
    format!(
        "{};{};{};{};{};{};{};{};{}",
        hex(&r.seq),
        hex(&r.src),
        hex(&r.typ),
        r.start,
        r.end,
        hex(&r.score),
        hex(&r.strand),
        r.phase.map(|p| p.to_string()).unwrap_or_else(|| "n".into()),
        join(&attrs, ",")
    )
}

fn gen_comments(rng: &mut Rng, nrec: usize) -> String {
    if rng.chance(1, 3) {
        return "-".into();
    }
    let n = 1 + rng.below(4);
    let cs: Vec<String> = (0..n)
        .map(|_| {
            let pos = rng.below(nrec + 1);
            let line: Vec<u8> = match rng.below(7) {
                0 => vec![],
                1 => b"#".to_vec(),
                5 => b"\r".to_vec(),
                6 => {
                    // a comment with bytes that mean something elsewhere: quotes (also unbalanced), CR, TAB
                    let mut l = b"#".to_vec();
                    let k = 1 + rng.below(6);
                    l.extend(rng.seq(b"\"\"\r\t\\ a#", k));
                    l
                }
                2 => {
                    // a comment that looks like a record
                    let mut l = b"#chr1\t5\t9".to_vec();
                    let k = rng.below(6);
                    l.extend(rng.seq(b"\tx1", k));
                    l
                }
                _ => {
                    let mut l = b"#".to_vec();
                    let k = rng.below(12);
                    l.extend(rng.seq(RICH, k));
                    l
                }
            };
            format!("{}:{}", pos, hex(&line))
        })
        .collect();
    let mut cs = cs;
    if rng.chance(1, 5) {
        // the file ends in a comment line without a terminating newline
        let mut l = b"#".to_vec();
        let k = rng.below(8);
        l.extend(rng.seq(b"ab1 .-_\tx", k));
        cs.push(format!("eof:{}", hex(&l)));
    }
    cs.join(",")
}

/// a fault for a file of `nrec` lines with `ncol` columns; `numeric` = columns holding coordinates, `phase` = phase column
/// a generated fault that the case parser itself would refuse (e.g. deleting the first column turns the line into a
/// comment) is replaced by "none": the generator must never emit a line that `exec` rejects as BADCASE
fn safe_fault(written: Option<&[u8]>, fault: String) -> String {
    match written {
        Some(w) if apply_fault(w, &fault).is_err() => "none".into(),
        _ => fault,
    }
}

fn gen_fault(rng: &mut Rng, nrec: usize, ncol: usize, numeric: &[usize], phase: Option<usize>, wlen: usize) -> String {
    if nrec == 0 {
        return if rng.chance(1, 2) { "none".into() } else { "cut:0".into() };
    }
    let line = rng.below(nrec);
    match rng.below(14) {
        0 | 1 => "none".into(),
        12 | 13 => {
            // reader-side quoting: a column replaced by raw bytes with quotes in all positions (quoted numbers,
            // text after a closing quote, quotes inside an unquoted field, an unterminated quote, CR as line end,
            // a column that turns the line into a comment)
            let raw: &[&[u8]] = &[
                b"\"5\"", b"\"x\"y", b"a\"b", b"\"", b"\"\"", b"\"a\"\"b\"", b"\"a\tb\"", b"\"a\nb\"", b"a\rb", b"#x", b"\"#x\"",
                b"\"12\"3", b"1\"2\"", b"\"\"7", b"\"a\\\"", b"\"a\\\"\"b\"", b"x\"\"", b"\" \"", b"\r", b"\"\r\n\"",
            ];
            format!("set:{}:{}:{}", line, rng.below(ncol), hex(*rng.pick(raw)))
        }
        2 | 3 => {
            // bad number
            let col = *rng.pick(numeric);
            let bad: &[&[u8]] = &[b"-1", b"x", b"", b"1.5", b" 5", b"5 ", b"12a", b"18446744073709551616", b"-", b"1e3", b"99999999999999999999999"];
            format!("set:{}:{}:{}", line, col, hex(*rng.pick(bad)))
        }
        4 => match phase {
            Some(pc) => {
                let bad: &[&[u8]] = &[b"3", b"7", b"x", b"", b"-1", b"256", b"..", b"9", b"12"];
                format!("set:{}:{}:{}", line, pc, hex(*rng.pick(bad)))
            }
            None => format!("del:{}:{}", line, rng.below(ncol)),
        },
        5 => format!("add:{}:{}", if rng.chance(1, 3) { "all".to_string() } else { line.to_string() }, hex(&rand_field(rng, true))),
        6 => format!("del:{}:{}", line, rng.below(ncol)),
        7 => {
            // harmless replacement: a well-formed value
            let col = *rng.pick(numeric);
            format!("set:{}:{}:{}", line, col, hex(rand_u64(rng).to_string().as_bytes()))
        }
        _ => {
            let n = 1 + rng.below(10);
            let mut offs: Vec<String> = (0..n).map(|_| rng.below(wlen + 1).to_string()).collect();
            if rng.chance(1, 2) {
                offs.push(wlen.saturating_sub(1).to_string());
            }
            format!("cut:{}", offs.join(":"))
        }
    }
}

fn gen_bed(rng: &mut Rng, every_cut: bool) -> String {
    let k = match rng.below(8) {
        0 | 1 => 0,
        2 => 1,
        3 => 2,
        4 | 5 => 3,
        _ => 4 + rng.below(9),
    };
    let n = match rng.below(10) {
        0 => 0,
        1 | 2 => 1,
        _ => 2 + rng.below(5),
    };
    let q = rng.chance(2, 5);
    let recs: Vec<BedRec> = (0..n)
        .map(|_| BedRec {
            chrom: rand_first_field(rng, q),
            start: rand_u64(rng),
            end: rand_u64(rng),
            aux: (0..k)
                .map(|j| {
                    if j == 2 && rng.chance(2, 3) {
                        rng.pick(&[&b"+"[..], b"-", b".", b""]).to_vec()
                    } else {
                        rand_text(rng, q, true)
                    }
                })
                .collect(),
        })
        .collect();
    // a quarter of the files in dictionary mode (independent of the csv-sensitive mode)
    let mut recs = recs;
    if rng.chance(1, 4) {
        dictify_bed(rng, &mut recs);
    }
    let written = bed_write(&recs).ok();
    let wlen = written.as_ref().map(|w| w.len()).unwrap_or(0);
    let fault = if every_cut {
        format!("cut:{}", (0..=wlen).map(|o| o.to_string()).collect::<Vec<_>>().join(":"))
    } else {
        safe_fault(written.as_deref(), gen_fault(rng, n, 3 + k, &[1, 2], None, wlen))
    };
    let recs_s: Vec<String> = recs.iter().map(fmt_bed).collect();
    format!("bed {} {} {}", join(&recs_s, "/"), gen_comments(rng, n), fault)
}

fn rand_attr_token(rng: &mut Rng, delim: u8, term: u8, vdelim: u8, is_key: bool, q: bool) -> Vec<u8> {
    loop {
        let cap = if rng.chance(1, 4) { 12 } else { 5 };
        let len = 1 + rng.below(cap);
        let alpha: &[u8] = if q && rng.chance(1, 2) {
            b"ab\"\"\\\n\r#' "
        } else if rng.chance(1, 3) {
            b"ab1 .-_#'=,:+|/()@"
        } else {
            b"abcID_019."
        };
        let t: Vec<u8> = rng.seq(alpha, len);
        if attr_ok(&t, delim, term, vdelim, is_key) {
            return t;
        }
    }
}

fn gen_gff(rng: &mut Rng, every_cut: bool) -> String {
    let d = *rng.pick(&["gff3", "gff3", "gff2", "gtf2"]);
    let (t, delim, term, vdelim) = dialect(d).unwrap();
    let n = match rng.below(10) {
        0 => 0,
        1 | 2 => 1,
        _ => 2 + rng.below(4),
    };
    // a third of the files has single-valued attributes only
    let multi = !rng.chance(1, 3);
    let q = rng.chance(2, 5);
    let recs: Vec<GffRec> = (0..n)
        .map(|_| {
            let nk = match rng.below(6) {
                0 => 0,
                1 | 2 => 1,
                _ => 2 + rng.below(4),
            };
            let mut attrs: Vec<(Vec<u8>, Vec<Vec<u8>>)> = vec![];
            for _ in 0..nk {
                let k = rand_attr_token(rng, delim, term, vdelim, true, q);
                let nv = if multi && rng.chance(1, 3) { 2 + rng.below(3) } else { 1 };
                let vs: Vec<Vec<u8>> = (0..nv)
                    .map(|_| {
                        if rng.chance(1, 8) && !attrs.is_empty() {
                            attrs[0].1[0].clone() // a repeated value
                        } else {
                            rand_attr_token(rng, delim, term, vdelim, false, q)
                        }
                    })
                    .collect();
                if multi || !attrs.iter().any(|(k2, _)| *k2 == k) {
                    attrs.push((k, vs));
                }
            }
            GffRec {
                seq: rand_first_field(rng, q),
                src: rand_text(rng, q, true),
                typ: rand_text(rng, q, true),
                start: rand_u64(rng),
                end: rand_u64(rng),
                score: match rng.below(6) {
                    0 | 1 => b".".to_vec(),
                    2 => rand_u64(rng).to_string().into_bytes(),
                    3 => rng.below(1000).to_string().into_bytes(),
                    4 => rng.pick(&[&b"0.5"[..], b"1e5", b"abc", b"-3", b"1.0"]).to_vec(),
                    5 if q => rand_special(rng),
                    _ => b"50".to_vec(),
                },
                strand: if q && rng.chance(1, 4) {
                    rand_special(rng)
                } else {
                    rng.pick(&[&b"+"[..], b"-", b".", b"?", b"+", b"-"]).to_vec()
                },
                phase: *rng.pick(&[None, Some(0), Some(1), Some(2)]),
                attrs,
            }
        })
        .collect();
    // a quarter of the files in dictionary mode (independent of the csv-sensitive mode)
    let mut recs = recs;
    if rng.chance(1, 4) {
        dictify_gff(rng, &mut recs, delim, term, vdelim, multi);
    }
    let written = gff_write_real(&gff_build(&recs), t).ok();
    let wlen = written.as_ref().map(|w| w.len()).unwrap_or(0);
    let fault = if every_cut {
        format!("cut:{}", (0..=wlen).map(|o| o.to_string()).collect::<Vec<_>>().join(":"))
    } else {
        safe_fault(written.as_deref(), gen_fault(rng, n, 9, &[3, 4], Some(7), wlen))
    };
    let recs_s: Vec<String> = recs.iter().map(fmt_gff).collect();
    let style = *rng.pick(&["plain", "plain", "spaced", "quoted", "csvq"]);
    format!("gff {} {} {} {} {}", d, join(&recs_s, "/"), gen_comments(rng, n), fault, style)
}

pub fn gen(tier: &str, rng: &mut Rng, out: &mut Vec<String>) {
    let thorough = tier == "thorough";
    let n = if thorough { 15_000 } else { 750 };
    gen_dict_files(out);
    for _ in 0..n {
        out.push(gen_bed(rng, false));
        out.push(gen_gff(rng, false));
    }
    // truncation at *every* offset of the written file
    let m = if thorough { 1_500 } else { 60 };
    for _ in 0..m {
        out.push(gen_bed(rng, true));
        out.push(gen_gff(rng, true));
    }
}
