//! C03 — suffix array, LCP, shortest unique substrings, sampled suffix array.
//!
//! `sa <text>`                          => `<sa>`                       suffix_array (any sentinel byte, several occurrences)
//! `lcp <text>`                         => `<sa>;<lcp>;<sus>`           single-sentinel text, n >= 2 (sus: `n` = None)
//! `int <v0,v1,…>`                      => `<sa>`                       suffix_array_int (dense, unique 0 at the end)
//! `samp <text> <f|n> <s1,s2,…> <k1,…>` => `<sa>;<gets s1 k1>/<gets s1 k2>/…`   SampledSuffixArray::get(i) for all i
//!        f = alphabet with the sentinel, n = alphabet without it
use crate::util::*;
use bio::alphabets::Alphabet;
use bio::data_structures::bwt::{bwt, less, Occ};
use bio::data_structures::suffix_array::{lcp, shortest_unique_substrings, suffix_array, suffix_array_int, SuffixArray};

pub fn fib_word(a: u8, b: u8, len: usize) -> Vec<u8> {
    let mut x = vec![a];
    let mut y = vec![a, b];
    while y.len() < len {
        let mut z = y.clone();
        z.extend_from_slice(&x);
        x = y;
        y = z;
    }
    y.truncate(len);
    y
}

pub fn thue_morse(a: u8, b: u8, len: usize) -> Vec<u8> {
    (0..len).map(|i| if (i as u64).count_ones() % 2 == 0 { a } else { b }).collect()
}

/// letters strictly above `sent`
pub fn letters(rng: &mut Rng, sent: u8, k: usize) -> Vec<u8> {
    let pools: [&[u8]; 4] = [b"ACGT", b"abcde", b"ACGTN", &[37, 38, 200, 254, 255]];
    let mut v: Vec<u8> = match rng.below(5) {
        0 | 1 => pools[0].to_vec(),
        2 => pools[1].to_vec(),
        3 => pools[2].to_vec(),
        _ => pools[3].to_vec(),
    };
    v.retain(|&c| c > sent);
    if v.is_empty() {
        v = vec![sent.saturating_add(1).max(1)];
    }
    // random subset of size k (keep order irrelevant)
    while v.len() > k {
        let i = rng.below(v.len());
        v.remove(i);
    }
    v
}

/// one sequence without sentinel, max length `maxlen`
pub fn seq(rng: &mut Rng, alpha: &[u8], maxlen: usize) -> Vec<u8> {
    let len = rng.below(maxlen + 1);
    let a = alpha[0];
    let b = *alpha.last().unwrap();
    match rng.below(10) {
        // power of a short word
        0 | 1 => {
            let per = 1 + rng.below(4);
            let w = rng.seq(alpha, per);
            (0..len).map(|i| w[i % per]).collect()
        }
        // power of a short word with one symbol changed
        2 => {
            let per = 1 + rng.below(4);
            let w = rng.seq(alpha, per);
            let mut s: Vec<u8> = (0..len).map(|i| w[i % per]).collect();
            if len > 0 {
                let i = rng.below(len);
                s[i] = *rng.pick(alpha);
            }
            s
        }
        3 => fib_word(a, b, len),
        4 => fib_word(b, a, len),
        5 => vec![*rng.pick(alpha); len],
        6 => thue_morse(a, b, len),
        _ => rng.seq(alpha, len),
    }
}

/// a sentinel-terminated text: `nseq` sequences joined (and ended) by `sent`
pub fn text(rng: &mut Rng, sent: u8, nseq: usize, maxlen: usize, nsym: usize) -> Vec<u8> {
    let alpha = letters(rng, sent, nsym);
    let mut t = vec![];
    // sometimes all reads are copies / mutated copies of one read (equal LMS substrings across sentinels)
    let copies = rng.chance(1, 4);
    let base = seq(rng, &alpha, maxlen);
    for _ in 0..nseq {
        if copies {
            if rng.chance(1, 2) {
                t.extend_from_slice(&base);
            } else {
                t.extend(rng.mutate(&base, &alpha, 10));
            }
        } else {
            t.extend(seq(rng, &alpha, maxlen));
        }
        t.push(sent);
    }
    t
}

/// text with `m` one/two-letter reads (>= 256 sentinels reaches the u16 rank path)
pub fn many_sentinels(rng: &mut Rng, sent: u8, m: usize) -> Vec<u8> {
    let na = 1 + rng.below(3);
    let alpha = letters(rng, sent, na);
    let mut t = vec![];
    for _ in 0..m {
        let l = if rng.chance(1, 5) { rng.below(3) } else { 1 };
        t.extend(rng.seq(&alpha, l));
        t.push(sent);
    }
    t
}

fn pick_sentinel(rng: &mut Rng, dollar_only: bool) -> u8 {
    if dollar_only {
        return b'$';
    }
    match rng.below(8) {
        0 => 0,
        1 => 1,
        2 => b'#',
        3 => b'@',
        _ => b'$',
    }
}

/// random text for the generic cases
pub fn any_text(rng: &mut Rng, dollar_only: bool, single: bool, maxlen: usize) -> Vec<u8> {
    let sent = pick_sentinel(rng, dollar_only);
    let nseq = if single { 1 } else { *rng.pick(&[1usize, 1, 2, 2, 3, 4, 5, 6]) };
    let nsym = 1 + rng.below(5);
    let ml = match rng.below(6) {
        0 => 3,
        1 => 8,
        _ => maxlen,
    };
    text(rng, sent, nseq, ml, nsym)
}

fn int_text(rng: &mut Rng) -> Vec<usize> {
    // dense alphabet 0..=max, unique 0 at the end
    let mm = if rng.chance(1, 6) { 40 } else { 5 };
    let max = 1 + rng.below(mm);
    let len = max + rng.below(40);
    let mut v: Vec<usize> = match rng.below(4) {
        0 => {
            let per = 1 + rng.below(4);
            let w: Vec<usize> = (0..per).map(|_| 1 + rng.below(max)).collect();
            (0..len).map(|i| w[i % per]).collect()
        }
        1 if max >= 2 => fib_word(1, 2, len).into_iter().map(|c| c as usize).collect(),
        _ => (0..len).map(|_| 1 + rng.below(max)).collect(),
    };
    // make it dense: overwrite random places with the missing values
    let mut used = vec![false; max + 1];
    for &c in &v {
        used[c] = true;
    }
    let missing: Vec<usize> = (1..=max).filter(|&c| !used[c]).collect();
    if v.len() < max {
        v = (1..=max).collect();
    } else {
        let mut slots: Vec<usize> = (0..v.len()).collect();
        for m in missing {
            // choose a slot whose value occurs more than once
            for _ in 0..200 {
                let si = rng.below(slots.len());
                let s = slots[si];
                if v.iter().filter(|&&c| c == v[s]).count() > 1 {
                    v[s] = m;
                    slots.swap_remove(si);
                    break;
                }
            }
        }
        let mut used = vec![false; max + 1];
        for &c in &v {
            used[c] = true;
        }
        if !(1..=max).all(|c| used[c]) {
            v = (1..=max).collect();
        }
    }
    v.push(0);
    v
}

fn enum_texts(alpha: &[u8], sent: u8, maxlen: usize, out: &mut Vec<Vec<u8>>) {
    // all texts of length 1..=maxlen over alpha ∪ {sent} ending in sent
    let mut syms = alpha.to_vec();
    syms.push(sent);
    let mut cur: Vec<Vec<u8>> = vec![vec![]];
    for _l in 0..maxlen {
        for s in &cur {
            let mut t = s.clone();
            t.push(sent);
            out.push(t);
        }
        let mut nxt = vec![];
        for s in &cur {
            for &a in &syms {
                let mut t = s.clone();
                t.push(a);
                nxt.push(t);
            }
        }
        cur = nxt;
    }
}

const S_RATES: [usize; 9] = [1, 2, 3, 4, 5, 6, 7, 8, 16];
pub const K_RATES: [usize; 13] = [1, 2, 3, 5, 8, 63, 64, 65, 66, 100, 127, 128, 129];

pub fn gen(tier: &str, rng: &mut Rng, out: &mut Vec<String>) {
    let thorough = tier == "thorough";
    let n_sa = if thorough { 30_000 } else { 2_500 };
    for i in 0..n_sa {
        let t = if i % 400 == 7 {
            let m = 256 + rng.below(60);
            many_sentinels(rng, b'$', m)
        } else if i % 400 == 207 {
            // > 255 LMS substrings, all equal: u16 reduced text and recursion
            let w: &[u8] = *rng.pick(&[b"ba".as_slice(), b"cab", b"ab", b"bba"]);
            let reps = 260 + rng.below(40);
            let mut t: Vec<u8> = (0..reps * w.len()).map(|j| w[j % w.len()]).collect();
            if rng.chance(1, 2) {
                let j = rng.below(t.len());
                t[j] = b'c';
            }
            t.push(b'$');
            t
        } else if i % 25 == 3 {
            // long structured single texts: several levels of SA-IS recursion
            let len = 100 + rng.below(500);
            let mut t = match rng.below(5) {
                0 => fib_word(b'a', b'b', len),
                1 => fib_word(b'b', b'a', len),
                2 => thue_morse(b'a', b'b', len),
                // period doubling word
                3 => (1..=len).map(|j| if (j as u64).trailing_zeros() % 2 == 0 { b'a' } else { b'b' }).collect(),
                _ => {
                    let wl = 2 + rng.below(6);
                    let w = rng.seq(b"abc", wl);
                    (0..len).map(|j| w[j % w.len()]).collect()
                }
            };
            let nm = rng.below(3);
            for _ in 0..nm {
                let j = rng.below(t.len());
                t[j] = *rng.pick(b"abc$");
            }
            t.push(b'$');
            t
        } else {
            let ml = if thorough && rng.chance(1, 10) { 120 } else { 30 };
            any_text(rng, false, false, ml)
        };
        out.push(format!("sa {}", hex(&t)));
    }
    let n_lcp = if thorough { 8_000 } else { 600 };
    for i in 0..n_lcp {
        let t = if i % 50 == 3 {
            // LCP values >= 127 (SmallInts overflow map)
            let w: &[u8] = *rng.pick(&[b"a".as_slice(), b"ab", b"aab"]);
            let len = 130 + rng.below(140);
            let mut t: Vec<u8> = (0..len).map(|j| w[j % w.len()]).collect();
            t.push(b'$');
            t
        } else {
            let ml = if rng.chance(1, 8) { 120 } else { 30 };
            let mut t = any_text(rng, false, true, ml);
            if t.len() < 2 {
                t.insert(0, t[0].saturating_add(1).max(1));
            }
            t
        };
        out.push(format!("lcp {}", hex(&t)));
    }
    let n_int = if thorough { 6_000 } else { 400 };
    for _ in 0..n_int {
        out.push(format!("int {}", join(&int_text(rng), ",")));
    }
    let n_samp = if thorough { 4_000 } else { 400 };
    for i in 0..n_samp {
        let t = if i % 100 == 11 {
            {
                let m = 256 + rng.below(20);
                many_sentinels(rng, b'$', m)
            }
        } else {
            {
                let ml = if rng.chance(1, 6) { 100 } else { 25 };
                any_text(rng, false, false, ml)
            }
        };
        let has_other = t.iter().any(|&c| c != *t.last().unwrap());
        let flag = if has_other && *t.last().unwrap() == b'$' && rng.chance(1, 2) { "n" } else { "f" };
        let big = t.len() > 200;
        let ss: Vec<usize> = if big { vec![*rng.pick(&S_RATES), 16] } else { S_RATES.to_vec() };
        let mut ks: Vec<usize> = vec![*rng.pick(&K_RATES[..5]), *rng.pick(&K_RATES[5..])];
        if rng.chance(1, 4) {
            ks.push(2 * t.len());
        }
        out.push(format!("samp {} {} {} {}", hex(&t), flag, join(&ss, ","), join(&ks, ",")));
    }
    if thorough {
        let mut ts = vec![];
        enum_texts(b"AC", b'$', 9, &mut ts);
        for t in ts {
            out.push(format!("sa {}", hex(&t)));
        }
        let mut ts = vec![];
        enum_texts(b"AC", b'$', 7, &mut ts);
        for t in ts {
            if t.len() >= 2 && t.iter().filter(|&&c| c == b'$').count() == 1 {
                out.push(format!("lcp {}", hex(&t)));
            }
        }
    }
}

/// text ends with its smallest symbol
fn well_formed(t: &[u8]) -> Result<(), String> {
    if t.is_empty() {
        return Err("empty text".into());
    }
    let s = t[t.len() - 1];
    if t.iter().any(|&c| c < s) {
        return Err("sentinel not smallest".into());
    }
    Ok(())
}

pub fn exec(toks: &[&str]) -> Result<String, String> {
    if toks.is_empty() {
        return Err("arity".into());
    }
    match toks[0] {
        "sa" => {
            if toks.len() != 2 {
                return Err("arity".into());
            }
            let t = unhex(toks[1])?;
            well_formed(&t)?;
            Ok(join(&suffix_array(&t), ","))
        }
        "lcp" => {
            if toks.len() != 2 {
                return Err("arity".into());
            }
            let t = unhex(toks[1])?;
            well_formed(&t)?;
            let s = t[t.len() - 1];
            if t.len() < 2 || t.iter().filter(|&&c| c == s).count() != 1 {
                return Err("lcp needs a single sentinel and length >= 2".into());
            }
            let sa = suffix_array(&t);
            let l = lcp(&t, &sa);
            let sus = shortest_unique_substrings(&sa, &l);
            let sus_s: Vec<String> = sus.iter().map(|x| x.map_or("n".to_string(), |v| v.to_string())).collect();
            Ok(format!("{};{};{}", join(&sa, ","), join(&l.decompress(), ","), join(&sus_s, ",")))
        }
        "int" => {
            if toks.len() != 2 {
                return Err("arity".into());
            }
            let v: Vec<usize> = parse_list(toks[1], ',')?;
            if v.is_empty() || *v.last().unwrap() != 0 || v[..v.len() - 1].iter().any(|&c| c == 0) {
                return Err("needs a unique 0 at the end".into());
            }
            let max = *v.iter().max().unwrap();
            if max > 10_000 {
                return Err("too large".into());
            }
            let mut used = vec![false; max + 1];
            for &c in &v {
                used[c] = true;
            }
            if used.iter().any(|u| !u) {
                return Err("not dense".into());
            }
            Ok(join(&suffix_array_int(&v), ","))
        }
        "samp" => {
            if toks.len() != 5 {
                return Err("arity".into());
            }
            let t = unhex(toks[1])?;
            well_formed(&t)?;
            let sent = t[t.len() - 1];
            let ss: Vec<usize> = parse_list(toks[3], ',')?;
            let ks: Vec<usize> = parse_list(toks[4], ',')?;
            if ss.is_empty() || ks.is_empty() || ss.iter().any(|&s| s == 0) || ks.iter().any(|&k| k == 0 || k > 1 << 30) {
                return Err("rates".into());
            }
            let alphabet = match toks[2] {
                "f" => Alphabet::new(&t),
                "n" => {
                    let a = Alphabet::new(t.iter().filter(|&&c| c != sent));
                    if a.is_empty() {
                        return Err("empty alphabet".into());
                    }
                    a
                }
                _ => return Err("alphabet flag".into()),
            };
            let sa = suffix_array(&t);
            let b = bwt(&t, &sa);
            let le = less(&b, &alphabet);
            let mut outs = vec![];
            for &s in &ss {
                for &k in &ks {
                    let occ = Occ::new(&b, k as u32, &alphabet);
                    let sampled = sa.sample(&t, &b, &le, &occ, s);
                    let gets: Vec<String> = (0..sa.len())
                        .map(|i| sampled.get(i).map_or("n".to_string(), |v| v.to_string()))
                        .collect();
                    outs.push(join(&gets, ","));
                }
            }
            Ok(format!("{};{}", join(&sa, ","), outs.join("/")))
        }
        _ => Err("op".into()),
    }
}
