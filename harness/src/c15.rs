//! C15 — log-space probability arithmetic.  All floats are printed with `{:e}` (shortest round-trip decimal form,
//! `inf`, `-inf`, `NaN`) and parsed back by the driver; operands in the input line are parsed by `exec` with
//! `str::parse::<f64>` (exact round trip of what `gen` printed).
//!
//! ```text
//! add <a> <b>            => <r>          LogProb(a).ln_add_exp(LogProb(b))
//! sum <x,…|->            => <r>          LogProb::ln_sum_exp
//! cumsum <x,…|->         => <r,…|->      LogProb::ln_cumsum_exp
//! sub <a> <b>            => <r>          a.ln_sub_exp(b)           (a >= b)
//! 1m <a>                 => <r>          a.ln_one_minus_exp()      (a <= 0)
//! trap <dens> <a> <b> <n> => <r>         ln_trapezoidal_integrate_exp
//! simp <dens> <a> <b> <n> => <r>         ln_simpsons_integrate_exp (n odd)
//! grid <dens> <g,…>      => <r>          ln_trapezoidal_integrate_grid_exp
//! conv <chain> <v>       => <r>          chain of From conversions over p (Prob), l (LogProb), q (PHREDProb)
//! checked <v>            => ok:<v> | err Prob::checked
//! fexp <x>               => <r>          FastExp::fastexp
//! consts                 => <l2q> <q2l>  PHREDProb::from(LogProb(1.0)), LogProb::from(PHREDProb(1.0)) = the two scale factors
//! lsum <rle>             => <r>          ln_sum_exp of a long list
//! lcumsum <stride> <rle> => <r,…> <s>    ln_cumsum_exp, sampled (see below), and ln_sum_exp of the same list
//! lchain <l|r|a> <stride> <rle> => <r,…> s = x0; s = s.ln_add_exp(x) (l) | x.ln_add_exp(s) (r) | alternating (a); sampled
//! ```
//! `<rle>`: run-length list, items `<x>` or `<x>*<count>` separated by `,` (expanded length 1 ..= 2 000 000).
//! Sampled: the partial results number `stride`, `2·stride`, … (1-based) and the last one.
//! densities: `const:<ln c>` | `poly:<c0>:<c1>:<c2>` (c0 + c1 x + c2 x², coefficients >= 0, used on x >= 0) |
//! `gauss:<mu>:<sigma>` | `expd:<lambda>` (λ e^{-λx}) | `box:<lo>:<hi>:<ln c>` (c on [lo,hi], 0 outside).
use crate::util::*;
use bio::stats::{LogProb, PHREDProb, Prob};
use bio::utils::FastExp;

fn fe(x: f64) -> String {
    format!("{:e}", x)
}

fn pf(s: &str) -> Result<f64, String> {
    match s {
        "inf" => Ok(f64::INFINITY),
        "-inf" => Ok(f64::NEG_INFINITY),
        "NaN" => Ok(f64::NAN),
        _ => {
            if s.is_empty() || !s.bytes().all(|c| c.is_ascii_digit() || c == b'-' || c == b'.' || c == b'e') {
                return Err(format!("bad float {}", s));
            }
            s.parse::<f64>().map_err(|_| format!("bad float {}", s))
        }
    }
}

fn pfl(s: &str) -> Result<Vec<f64>, String> {
    split_list(s, ',').into_iter().map(pf).collect()
}

fn fl(xs: &[f64]) -> String {
    if xs.is_empty() {
        "-".into()
    } else {
        xs.iter().map(|x| fe(*x)).collect::<Vec<_>>().join(",")
    }
}

#[derive(Clone, Debug)]
enum Dens {
    Const(f64),
    Poly(f64, f64, f64),
    Gauss(f64, f64),
    Expd(f64),
    Box(f64, f64, f64),
}

impl Dens {
    fn parse(s: &str) -> Result<Dens, String> {
        let p: Vec<&str> = s.split(':').collect();
        let num = |i: usize| -> Result<f64, String> { pf(p.get(i).ok_or("density arity")?) };
        let d = match p[0] {
            "const" if p.len() == 2 => Dens::Const(num(1)?),
            "poly" if p.len() == 4 => Dens::Poly(num(1)?, num(2)?, num(3)?),
            "gauss" if p.len() == 3 => Dens::Gauss(num(1)?, num(2)?),
            "expd" if p.len() == 2 => Dens::Expd(num(1)?),
            "box" if p.len() == 4 => Dens::Box(num(1)?, num(2)?, num(3)?),
            _ => return Err("unknown density".into()),
        };
        let ok = match d {
            Dens::Const(c) => c <= 0.0 || c.is_finite(),
            Dens::Poly(a, b, c) => a >= 0.0 && b >= 0.0 && c >= 0.0 && a.is_finite() && b.is_finite() && c.is_finite(),
            Dens::Gauss(m, s) => m.is_finite() && s > 0.0 && s.is_finite(),
            Dens::Expd(l) => l > 0.0 && l.is_finite(),
            Dens::Box(lo, hi, c) => lo.is_finite() && hi.is_finite() && !c.is_nan() && c < f64::INFINITY,
        };
        if ok {
            Ok(d)
        } else {
            Err("density parameters".into())
        }
    }
    fn show(&self) -> String {
        match self {
            Dens::Const(c) => format!("const:{}", fe(*c)),
            Dens::Poly(a, b, c) => format!("poly:{}:{}:{}", fe(*a), fe(*b), fe(*c)),
            Dens::Gauss(m, s) => format!("gauss:{}:{}", fe(*m), fe(*s)),
            Dens::Expd(l) => format!("expd:{}", fe(*l)),
            Dens::Box(lo, hi, c) => format!("box:{}:{}:{}", fe(*lo), fe(*hi), fe(*c)),
        }
    }
    /// ln f(x), computed in log space where that matters
    fn ln(&self, x: f64) -> f64 {
        match self {
            Dens::Const(c) => *c,
            Dens::Poly(a, b, c) => (a + b * x + c * x * x).ln(),
            Dens::Gauss(m, s) => {
                let z = (x - m) / s;
                -0.5 * z * z - (s * (2.0 * std::f64::consts::PI).sqrt()).ln()
            }
            Dens::Expd(l) => l.ln() - l * x,
            Dens::Box(lo, hi, c) => {
                if x >= *lo && x <= *hi {
                    *c
                } else {
                    f64::NEG_INFINITY
                }
            }
        }
    }
    fn needs_nonneg_x(&self) -> bool {
        matches!(self, Dens::Poly(..))
    }
}

// ------------------------------------------------------------------------------------------------ generators

/// a log-space probability from one of the corner classes
fn lp(rng: &mut Rng) -> f64 {
    let u = |rng: &mut Rng| (rng.next() >> 11) as f64 / (1u64 << 53) as f64; // [0,1)
    match rng.below(20) {
        0 | 1 => f64::NEG_INFINITY,
        2 => 0.0,
        3 => *rng.pick(&[-1e-300, -1e-20, -1e-12, -1e-9, -1e-6, -5e-324, -0.0]),
        4 => *rng.pick(&[-0.6929, -0.693, -0.6931, -0.6930000000000001, -0.6929999999999999, -std::f64::consts::LN_2, -0.69, -0.7]),
        5 | 6 => -u(rng),
        7 | 8 => -10.0 * u(rng),
        9 => -50.0 * u(rng),
        10 | 11 => -700.0 * u(rng),
        12 => -700.0 - 45.0 * u(rng),
        13 => *rng.pick(&[-1000.0, -1e5, -1e300, -745.2, -708.4, -499.9, -500.0, -500.1]),
        14 | 15 => {
            let p = u(rng);
            if p == 0.0 {
                f64::NEG_INFINITY
            } else {
                p.ln()
            }
        }
        16 => (u(rng) * 1e-300).max(5e-324).ln(),
        17 => -(rng.below(40) as f64),
        _ => -30.0 * u(rng) * u(rng),
    }
}

/// a second operand related to `a`: equal, near, at the fastexp cut-off distance, far
fn related(rng: &mut Rng, a: f64) -> f64 {
    if a == f64::NEG_INFINITY {
        return lp(rng);
    }
    let u = (rng.next() >> 11) as f64 / (1u64 << 53) as f64;
    let b = match rng.below(10) {
        0 | 1 => a,
        2 => a - 1e-9 * u,
        3 => a - *rng.pick(&[0.6929, 0.693, 0.6931, 0.6932, 0.5, 1.0]),
        4 => a - *rng.pick(&[499.0, 499.999, 500.0, 500.001, 501.0]),
        5 => a - 700.0 - 300.0 * u,
        6 => a - 40.0 * u,
        7 => a - u,
        8 => a - *rng.pick(&[1e-15, 1e-12, 1e-6, 1e-3, 0.01, 0.02, 0.05, 0.1]) * (0.5 + u),
        _ => return lp(rng),
    };
    b
}

fn lp_list(rng: &mut Rng) -> Vec<f64> {
    let n = match rng.below(10) {
        0 => 0,
        1 => 1,
        2 => 2,
        3 => 50,
        _ => rng.below(51),
    };
    let base = lp(rng);
    let style = rng.below(6);
    (0..n)
        .map(|_| match style {
            0 => lp(rng),
            1 => {
                if rng.chance(1, 3) {
                    f64::NEG_INFINITY
                } else {
                    lp(rng)
                }
            }
            2 => base, // all equal (several maxima)
            3 => related(rng, base),
            4 => {
                if rng.chance(1, 2) {
                    base
                } else {
                    f64::NEG_INFINITY
                }
            }
            _ => {
                let r = related(rng, base);
                if r > 0.0 {
                    0.0
                } else {
                    r
                }
            }
        })
        .map(|x| if x > 0.0 { 0.0 } else { x })
        .collect()
}

fn unit(rng: &mut Rng) -> f64 {
    (rng.next() >> 11) as f64 / (1u64 << 53) as f64
}

fn density(rng: &mut Rng) -> (Dens, f64, f64) {
    match rng.below(8) {
        0 => {
            let c = *rng.pick(&[0.1f64.ln(), 0.0, -30.0, -800.0, f64::NEG_INFINITY]);
            let a = (unit(rng) * 20.0 - 10.0).round();
            (Dens::Const(c), a, a + 1.0 + (unit(rng) * 10.0).round())
        }
        1 | 2 => {
            let c0 = if rng.chance(1, 3) { 0.0 } else { (unit(rng) * 4.0 * 8.0).round() / 8.0 };
            let c1 = if rng.chance(1, 3) { 0.0 } else { (unit(rng) * 4.0 * 8.0).round() / 8.0 };
            let c2 = if rng.chance(1, 3) { 0.0 } else { (unit(rng) * 4.0 * 8.0).round() / 8.0 };
            let a = (unit(rng) * 3.0 * 4.0).round() / 4.0;
            (Dens::Poly(c0, c1, c2), a, a + 0.25 + (unit(rng) * 16.0).round() / 4.0)
        }
        3 | 4 => {
            let mu = (unit(rng) * 10.0 - 5.0).round();
            let s = *rng.pick(&[0.01, 0.1, 0.5, 1.0, 3.0]);
            let w = *rng.pick(&[0.5, 2.0, 6.0, 40.0]);
            let off = *rng.pick(&[0.0, 0.0, 1.0, -3.0, 30.0]);
            (Dens::Gauss(mu, s), mu + off * s - w * s, mu + off * s + w * s)
        }
        5 => {
            let l = *rng.pick(&[0.1, 1.0, 7.0, 70.0]);
            let b = *rng.pick(&[1.0, 10.0, 100.0]);
            (Dens::Expd(l), 0.0, b)
        }
        _ => {
            let lo = (unit(rng) * 4.0).round();
            let hi = lo + (unit(rng) * 4.0).round();
            let c = *rng.pick(&[0.0, -1.0, -300.0]);
            let a = lo - (unit(rng) * 3.0).round();
            (Dens::Box(lo, hi, c), a, hi + (unit(rng) * 3.0).round() + if a == hi { 1.0 } else { 0.0 })
        }
    }
}

const CHAINS: [&str; 16] = [
    "pl", "lp", "pq", "qp", "lq", "ql", "plp", "pqp", "lql", "qlq", "plqp", "pqlp", "lpl", "lqpl", "qpq", "qplq",
];

fn prob(rng: &mut Rng) -> f64 {
    match rng.below(12) {
        0 => 0.0,
        1 => 1.0,
        2 => *rng.pick(&[5e-324, 1e-310, 2.2250738585072014e-308, 1e-300, 1e-250, 1e-218, 1e-217, 7.1e-218, 7.2e-218, 1e-200, 1e-100]),
        3 => *rng.pick(&[0.5, 0.25, 0.1, 0.9, 0.999999, 0.9999999999999999, 1e-5, 1e-15]),
        4 | 5 => unit(rng),
        6 => unit(rng) * 1e-3,
        7 => unit(rng) * 1e-30,
        8 => 1.0 - unit(rng) * 1e-6,
        9 => (-(unit(rng)) * 490.0).exp(),
        10 => (-(unit(rng)) * 700.0).exp(),
        _ => unit(rng) * unit(rng),
    }
}

pub fn gen(tier: &str, rng: &mut Rng, out: &mut Vec<String>) {
    let n = if tier == "thorough" { 1_000_000 } else { 20_000 };
    out.push("consts".to_string());
    for v in [
        "0e0", "-0e0", "1e0", "5e-324", "-5e-324", "1.0000000000000002e0", "9.999999999999999e-1", "5e-1", "2e0", "-1e0",
        "inf", "-inf", "NaN", "1e-300", "-1e-300",
    ] {
        out.push(format!("checked {}", v));
    }
    // dense sweep of one period of the fast exponential (the polynomial on (-1, 0] in base-2 units, see
    // theorem fastexp_reduction): the measured relative error appears as the err<=… tag buckets
    let sweep = if tier == "thorough" { 8192 } else { 512 };
    for j in 0..sweep {
        let x = -std::f64::consts::LN_2 * (j as f64 + 0.5) / sweep as f64;
        out.push(format!("fexp {}", fe(x)));
        if j % 8 == 0 {
            out.push(format!("fexp {}", fe(x - 37.0 * std::f64::consts::LN_2)));
        }
    }
    for i in 0..n {
        let line = match i % 20 {
            0..=3 => {
                let a = lp(rng);
                let b = if rng.chance(2, 3) { related(rng, a) } else { lp(rng) };
                let (a, b) = if rng.chance(1, 2) { (a, b) } else { (b, a) };
                format!("add {} {}", fe(a.min(0.0)), fe(b.min(0.0)))
            }
            4..=6 => format!("sum {}", fl(&lp_list(rng))),
            7 | 8 => format!("cumsum {}", fl(&lp_list(rng))),
            9 | 10 => {
                let a = lp(rng);
                let b = if rng.chance(3, 4) { related(rng, a) } else { lp(rng) };
                let (a, b) = if a >= b { (a, b) } else { (b, a) };
                format!("sub {} {}", fe(a.min(0.0)), fe(b.min(0.0)))
            }
            11 | 12 => format!("1m {}", fe(lp(rng).min(0.0))),
            13 => {
                let (d, a, b) = density(rng);
                let n = *rng.pick(&[3usize, 4, 5, 10, 11, 101, 2]);
                format!("trap {} {} {} {}", d.show(), fe(a), fe(b), n)
            }
            14 => {
                let (d, a, b) = density(rng);
                let n = *rng.pick(&[3usize, 5, 7, 11, 101]);
                format!("simp {} {} {} {}", d.show(), fe(a), fe(b), n)
            }
            15 => {
                let (d, a, b) = density(rng);
                let k = *rng.pick(&[3usize, 4, 5, 11, 30, 2, 1]);
                // increasing, non-uniform, occasionally with a repeated point
                let mut cuts: Vec<f64> = (0..k).map(|_| (unit(rng) * 64.0).round() / 64.0).collect();
                cuts.sort_by(|x, y| x.partial_cmp(y).unwrap());
                let g: Vec<f64> = cuts.iter().map(|c| a + (b - a) * c).collect();
                format!("grid {} {}", d.show(), fl(&g))
            }
            16 | 17 => {
                let c = *rng.pick(&CHAINS);
                let v = match c.as_bytes()[0] {
                    b'p' => prob(rng),
                    b'l' => lp(rng).min(0.0),
                    _ => {
                        // PHRED value
                        match rng.below(6) {
                            0 => 0.0,
                            1 => f64::INFINITY,
                            2 => (unit(rng) * 93.0).round(),
                            3 => unit(rng) * 3000.0,
                            4 => unit(rng) * 10.0,
                            _ => unit(rng) * 100.0,
                        }
                    }
                };
                format!("conv {} {}", c, fe(v))
            }
            18 => {
                let v = match rng.below(6) {
                    0 => unit(rng),
                    1 => 1.0 + unit(rng) * 1e-6,
                    2 => -unit(rng) * 1e-6,
                    3 => unit(rng) * 3.0 - 1.0,
                    4 => 1.0 - unit(rng) * 1e-12,
                    _ => unit(rng) * 1e-300,
                };
                format!("checked {}", fe(v))
            }
            _ => {
                let x = match rng.below(6) {
                    0 => -unit(rng),
                    1 => -unit(rng) * 30.0,
                    2 => -unit(rng) * 499.9,
                    3 => -(rng.below(500) as f64) * std::f64::consts::LN_2 - unit(rng) * 1e-6,
                    4 => -500.0 - unit(rng) * 300.0,
                    _ => *rng.pick(&[0.0, -0.0, -1e-300, -1e-9, -499.99, -500.0, -500.01, f64::NEG_INFINITY]),
                };
                format!("fexp {}", fe(x))
            }
        };
        out.push(line);
    }
    gen_long(tier, rng, out);
}

// ------------------------------------------------------------------------------ long accumulations (seed C15-6)
//
// One accumulator that holds a large value and is fed hundreds to millions of summands each far below it: every single
// addition is accurate, the *sum of what is dropped* is what a "negligible next to the larger operand" shortcut loses.

fn rle_show(runs: &[(f64, usize)]) -> String {
    runs.iter()
        .filter(|r| r.1 > 0)
        .map(|(x, k)| if *k == 1 { fe(*x) } else { format!("{}*{}", fe(*x), k) })
        .collect::<Vec<_>>()
        .join(",")
}

fn rle_parse(s: &str) -> Result<Vec<(f64, usize)>, String> {
    let mut runs = vec![];
    let mut total = 0usize;
    for it in s.split(',') {
        let (x, k) = match it.split_once('*') {
            Some((x, k)) => (pf(x)?, parse::<usize>(k)?),
            None => (pf(it)?, 1),
        };
        if x.is_nan() || x > 0.0 {
            return Err("not a log-probability".into());
        }
        if k == 0 {
            return Err("empty run".into());
        }
        total = total.checked_add(k).ok_or("too long")?;
        if total > 2_000_000 {
            return Err("too long".into());
        }
        runs.push((x, k));
    }
    Ok(runs)
}

fn rle_expand(runs: &[(f64, usize)]) -> Vec<LogProb> {
    let mut v = Vec::with_capacity(runs.iter().map(|r| r.1).sum());
    for (x, k) in runs {
        v.extend(std::iter::repeat(LogProb(*x)).take(*k));
    }
    v
}

fn sampled(all: impl Iterator<Item = f64>, n: usize, stride: usize) -> Vec<f64> {
    all.enumerate().filter(|(i, _)| (i + 1) % stride == 0 || i + 1 == n).map(|(_, x)| x).collect()
}

/// the scenarios: `head` = ln of the dominant summand, tail summands `ratio` times the head, `n` of them
/// (tail mass / head = n·ratio, between 1 % and 10 %, so 2–20 times the 0.5 % bound)
fn long_runs(rng: &mut Rng, thorough: bool) -> Vec<(f64, usize)> {
    let head = *rng.pick(&[0.5f64.ln(), 0.25f64.ln(), 0.9f64.ln(), 1e-3f64.ln(), -230.0, -600.0, -0.75, -3.0]);
    // ratio of one tail summand to the head; below ~1e-15 ordinary f64 addition absorbs the summand as well
    let ratios: &[f64] =
        if thorough { &[1e-3, 1e-4, 3e-5, 1e-5, 5e-6, 2.5e-6, 1e-6, 3e-7, 1e-7, 1e-8] } else { &[1e-3, 1e-4, 3e-5, 1e-5, 5e-6, 2.5e-6, 1e-6, 1e-6, 3e-7, 1e-7] };
    let ratio = *rng.pick(ratios) * (0.75 + 0.5 * unit(rng));
    let mass = 0.01 + 0.09 * unit(rng);
    let n = ((mass / ratio).ceil() as usize).clamp(2, 1_500_000);
    let t = head + ratio.ln();
    match rng.below(8) {
        // the peak first, then the flat tail
        0 | 1 => vec![(head, 1), (t, n)],
        // tail first (accumulates among itself), then the peak, then as much again
        2 => vec![(t, n / 2), (head, 1), (t, n - n / 2)],
        // tiny summands only before the peak
        3 => vec![(t, n), (head, 1)],
        // interleaved: peaks of falling height between stretches of the tail; ln 0 entries in between
        4 => {
            let q = n / 4;
            vec![(t, q), (head, 1), (f64::NEG_INFINITY, 3), (t, q), (head - 1.0, 1), (t, q), (head - 2.5, 2), (t, n - 3 * q)]
        }
        // two levels: a middle plateau (1e-3 of the head) and the tiny tail below it
        5 => {
            let mid = head + 1e-3f64.ln();
            vec![(head, 1), (mid, 1 + rng.below(40) as usize), (t, n)]
        }
        // jittered tail: runs of 1..200 summands of slightly different size (same total mass on average)
        6 => {
            let mut runs = vec![(head, 1)];
            let mut left = n;
            while left > 0 && runs.len() < 1500 {
                let k = (1 + rng.below(if n > 100_000 { 4000 } else { 200 }) as usize).min(left);
                runs.push((t + (0.5 + unit(rng)).ln(), k));
                left -= k;
            }
            if left > 0 {
                runs.push((t, left));
            }
            runs
        }
        // falling staircase: each stretch a factor 2 below the previous one, lengths doubling (equal mass per step)
        _ => {
            let mut runs = vec![(head, 1)];
            let mut k = (n / 15).max(1);
            let mut x = t + 2.0f64.ln();
            for _ in 0..4 {
                runs.push((x, k));
                x -= 2.0f64.ln();
                k *= 2;
            }
            runs
        }
    }
}

fn gen_long(tier: &str, rng: &mut Rng, out: &mut Vec<String>) {
    let thorough = tier == "thorough";
    // the seed's own shape and its mirror images, every run
    for runs in [
        vec![(0.5f64.ln(), 1), (2.5e-6f64.ln(), 4000)],
        vec![(0.25f64.ln(), 1), (2e-6f64.ln(), 2000)],
        vec![(2.5e-6f64.ln(), 4000), (0.5f64.ln(), 1)],
        vec![(0.0, 1), (-18.5, 1_500_000)],
    ] {
        let n: usize = runs.iter().map(|r| r.1).sum();
        let stride = (n / 64).max(1);
        out.push(format!("lcumsum {} {}", stride, rle_show(&runs)));
        out.push(format!("lsum {}", rle_show(&runs)));
        for o in ["l", "r", "a"] {
            out.push(format!("lchain {} {} {}", o, stride, rle_show(&runs)));
        }
    }
    let cases = if thorough { 1500 } else { 90 };
    for i in 0..cases {
        let runs = long_runs(rng, thorough);
        let n: usize = runs.iter().map(|r| r.1).sum();
        let stride = match rng.below(4) {
            0 if n <= 3000 => 1,
            1 => (n / 7).max(1),
            _ => (n / (20 + rng.below(100) as usize)).max(1),
        };
        out.push(match i % 6 {
            0 | 1 | 2 => format!("lcumsum {} {}", stride, rle_show(&runs)),
            3 => format!("lsum {}", rle_show(&runs)),
            _ => format!("lchain {} {} {}", rng.pick(&["l", "r", "a"]), stride, rle_show(&runs)),
        });
    }
}

// ------------------------------------------------------------------------------------------------ exec

fn conv(chain: &str, v: f64) -> Result<f64, String> {
    let b = chain.as_bytes();
    if b.len() < 2 || !b.iter().all(|c| matches!(c, b'p' | b'l' | b'q')) {
        return Err("bad chain".into());
    }
    #[derive(Clone, Copy)]
    enum V {
        P(Prob),
        L(LogProb),
        Q(PHREDProb),
    }
    let mut cur = match b[0] {
        b'p' => V::P(Prob(v)),
        b'l' => V::L(LogProb(v)),
        _ => V::Q(PHREDProb(v)),
    };
    for &t in &b[1..] {
        cur = match (cur, t) {
            (V::P(p), b'l') => V::L(LogProb::from(p)),
            (V::P(p), b'q') => V::Q(PHREDProb::from(p)),
            (V::L(l), b'p') => V::P(Prob::from(l)),
            (V::L(l), b'q') => V::Q(PHREDProb::from(l)),
            (V::Q(q), b'p') => V::P(Prob::from(q)),
            (V::Q(q), b'l') => V::L(LogProb::from(q)),
            _ => return Err("identity step in chain".into()),
        };
    }
    Ok(match cur {
        V::P(p) => *p,
        V::L(l) => *l,
        V::Q(q) => *q,
    })
}

pub fn exec(toks: &[&str]) -> Result<String, String> {
    if toks.is_empty() {
        return Err("arity".into());
    }
    let valid_lp = |x: f64| -> Result<f64, String> {
        if x.is_nan() || x > 0.0 {
            Err("not a log-probability".into())
        } else {
            Ok(x)
        }
    };
    match (toks[0], toks.len()) {
        ("add", 3) => {
            let a = valid_lp(pf(toks[1])?)?;
            let b = valid_lp(pf(toks[2])?)?;
            Ok(fe(*LogProb(a).ln_add_exp(LogProb(b))))
        }
        ("sum", 2) => {
            let xs: Vec<LogProb> = pfl(toks[1])?.into_iter().map(|x| valid_lp(x).map(LogProb)).collect::<Result<_, _>>()?;
            Ok(fe(*LogProb::ln_sum_exp(&xs)))
        }
        ("cumsum", 2) => {
            let xs: Vec<LogProb> = pfl(toks[1])?.into_iter().map(|x| valid_lp(x).map(LogProb)).collect::<Result<_, _>>()?;
            let r: Vec<f64> = LogProb::ln_cumsum_exp(xs).map(|x| *x).collect();
            Ok(fl(&r))
        }
        ("sub", 3) => {
            let a = valid_lp(pf(toks[1])?)?;
            let b = valid_lp(pf(toks[2])?)?;
            if !(a >= b) {
                return Err("a < b".into());
            }
            Ok(fe(*LogProb(a).ln_sub_exp(LogProb(b))))
        }
        ("1m", 2) => {
            let a = valid_lp(pf(toks[1])?)?;
            Ok(fe(*LogProb(a).ln_one_minus_exp()))
        }
        ("trap", 5) | ("simp", 5) => {
            let d = Dens::parse(toks[1])?;
            let a = pf(toks[2])?;
            let b = pf(toks[3])?;
            let n: usize = parse(toks[4])?;
            if !(a.is_finite() && b.is_finite() && a < b) || n < 2 || n > 2001 {
                return Err("bad interval".into());
            }
            if d.needs_nonneg_x() && a < 0.0 {
                return Err("polynomial density needs x >= 0".into());
            }
            let f = |_i: usize, x: f64| LogProb(d.ln(x));
            if toks[0] == "trap" {
                Ok(fe(*LogProb::ln_trapezoidal_integrate_exp(f, a, b, n)))
            } else {
                if n % 2 != 1 || n < 3 {
                    return Err("simpson needs odd n >= 3".into());
                }
                Ok(fe(*LogProb::ln_simpsons_integrate_exp(f, a, b, n)))
            }
        }
        ("grid", 3) => {
            let d = Dens::parse(toks[1])?;
            let g = pfl(toks[2])?;
            if g.is_empty() || g.iter().any(|x| !x.is_finite()) || g.windows(2).any(|w| !(w[0] <= w[1])) {
                return Err("grid must be finite and non-decreasing".into());
            }
            if d.needs_nonneg_x() && g[0] < 0.0 {
                return Err("polynomial density needs x >= 0".into());
            }
            let f = |_i: usize, x: f64| LogProb(d.ln(x));
            Ok(fe(*LogProb::ln_trapezoidal_integrate_grid_exp(f, &g)))
        }
        ("conv", 3) => {
            let v = pf(toks[2])?;
            let ok = match toks[1].as_bytes().first() {
                Some(b'p') => (0.0..=1.0).contains(&v),
                Some(b'l') => v <= 0.0,
                Some(b'q') => v >= 0.0,
                _ => false,
            };
            if !ok {
                return Err("operand outside the domain of its scale".into());
            }
            Ok(fe(conv(toks[1], v)?))
        }
        ("checked", 2) => {
            let v = pf(toks[1])?;
            Ok(match Prob::checked(v) {
                Ok(p) => format!("ok:{}", fe(*p)),
                Err(_) => "err".to_string(),
            })
        }
        ("fexp", 2) => {
            let x = pf(toks[1])?;
            if x.is_nan() || x > 0.0 {
                return Err("fexp operand must be <= 0".into());
            }
            Ok(fe(x.fastexp()))
        }
        ("lsum", 2) => {
            let xs = rle_expand(&rle_parse(toks[1])?);
            Ok(fe(*LogProb::ln_sum_exp(&xs)))
        }
        ("lcumsum", 3) => {
            let stride: usize = parse(toks[1])?;
            if stride == 0 {
                return Err("stride".into());
            }
            let xs = rle_expand(&rle_parse(toks[2])?);
            let n = xs.len();
            let total = *LogProb::ln_sum_exp(&xs);
            let r = sampled(LogProb::ln_cumsum_exp(xs).map(|x| *x), n, stride);
            Ok(format!("{} {}", fl(&r), fe(total)))
        }
        ("lchain", 4) => {
            let stride: usize = parse(toks[2])?;
            if stride == 0 || !matches!(toks[1], "l" | "r" | "a") {
                return Err("stride / order".into());
            }
            let xs = rle_expand(&rle_parse(toks[3])?);
            let n = xs.len();
            let mut s = xs[0];
            let mut all = Vec::with_capacity(n);
            all.push(*s);
            for (i, x) in xs.iter().enumerate().skip(1) {
                let self_first = match toks[1] {
                    "l" => true,
                    "r" => false,
                    _ => i % 2 == 1,
                };
                s = if self_first { s.ln_add_exp(*x) } else { x.ln_add_exp(s) };
                all.push(*s);
            }
            Ok(fl(&sampled(all.into_iter(), n, stride)))
        }
        ("consts", 1) => Ok(format!("{} {}", fe(*PHREDProb::from(LogProb(1.0))), fe(*LogProb::from(PHREDProb(1.0))))),
        _ => Err("unknown op".into()),
    }
}
