//! C02 — banded::Aligner, all nine entry points; one line = one history of calls on ONE aligner.
//!
//! `const => min:<MIN_SCORE>`          run-time value of the compiled pub constant
//! `docbudget => doc:<n|none>,max:<n>`  read in the compiled source text of banded.rs (`include_str!`): the number the doc
//!                                     comment states for the budget ("MAX_CELLS (currently set to 10 million)") and the
//!                                     private `const MAX_CELLS: usize = …;` — the driver compares both with what
//!                                     tools/gen_tables.py extracted into lean/RbV/Gen/Limits.lean
//! `cap:<m>:<n>|cap:new kw:<k>:<w> sc:… w:… <call>;<call>;… => <aln>,h:same|differs;…`
//! call = `<entry>,<x>,<y>[,<args>…]`:
//!   custom | global | semiglobal | local         the four modes, backbone computed internally
//!   prehash | sgprehash                          custom_with_prehash / semiglobal_with_prehash (hash_kmers(y, k))
//!   tm                                           custom_with_matches(true k-mer matches)
//!   sm,<bits>                                    custom_with_matches(subset: match i kept iff bit i%64 of <bits>)
//!   fm,<x.y+x.y+…|->                             custom_with_matches(arbitrary sorted pairs with x+k<=m, y+k<=n)
//!   exp,<n|0|1|3…>,<0|1>,<bits>                  custom_with_expanded_matches(subset, allowed_mismatches, union flag)
//!   path,<bits>,<pbits>                          custom_with_match_path(subset, chain picked greedily from the
//!                                                indices whose bit is set in <pbits>; index 0 if none)
//!   big,<lx>,<ly>                                budget guard: x = 'A'^lx, y = 'C'^ly built here (custom entry;
//!                                                the x and y fields of the call are ignored and must be `-`)
use crate::c01::align_util::*;
use crate::util::*;
use bio::alignment::pairwise::banded::Aligner;
use bio::alignment::pairwise::MIN_SCORE;
use bio::alignment::sparse::{
    expand_kmer_matches, find_kmer_matches, find_kmer_matches_seq2_hashed, hash_kmers, sdpkpp, sdpkpp_union_lcskpp_path,
};
use bio::alignment::Alignment;

/// the source text this harness was compiled against (bio-src points to the tree under test)
const BANDED_SRC: &str = include_str!("../bio-src/src/alignment/pairwise/banded.rs");

/// comment leaders at line starts removed, white space collapsed (same normalisation as `flatten_comments` of
/// tools/gen_tables.py)
fn flatten_comments(src: &str) -> String {
    let mut words: Vec<&str> = vec![];
    for ln in src.lines() {
        let mut t = ln.trim();
        for lead in ["///", "//!", "//"] {
            if let Some(r) = t.strip_prefix(lead) {
                t = r;
                break;
            }
        }
        words.extend(t.split_whitespace());
    }
    words.join(" ")
}

/// `<digits[_,]>[.<digits>] [thousand|million|billion]` → value; None when it is anything else
fn parse_doc_number(s: &str) -> Option<u64> {
    let parts: Vec<&str> = s.split_whitespace().collect();
    if parts.is_empty() || parts.len() > 2 {
        return None;
    }
    let unit: u64 = match parts.get(1).copied() {
        None => 1,
        Some("thousand") => 1_000,
        Some("million") => 1_000_000,
        Some("billion") => 1_000_000_000,
        Some(_) => return None,
    };
    let (ip, fp) = match parts[0].split_once('.') {
        Some((a, b)) => (a, b),
        None => (parts[0], ""),
    };
    if ip.is_empty() || !ip.as_bytes()[0].is_ascii_digit() || !ip.bytes().all(|c| c.is_ascii_digit() || c == b'_' || c == b',')
        || !fp.bytes().all(|c| c.is_ascii_digit()) || (parts[0].contains('.') && fp.is_empty())
    {
        return None;
    }
    let digits: String = ip.chars().filter(|c| c.is_ascii_digit()).chain(fp.chars()).collect();
    let num = digits.parse::<u64>().ok()?.checked_mul(unit)?;
    let den = 10u64.checked_pow(fp.len() as u32)?;
    if num % den != 0 {
        return None;
    }
    Some(num / den)
}

/// the value(s) the documentation states: `MAX_CELLS (currently set to <number>)`
fn doc_budget(src: &str) -> Result<Option<u64>, String> {
    const PHRASE: &str = "MAX_CELLS (currently set to ";
    let flat = flatten_comments(src);
    let mut vals: Vec<u64> = vec![];
    let mut pos = 0;
    while let Some(i) = flat[pos..].find(PHRASE) {
        let start = pos + i + PHRASE.len();
        let j = start + flat[start..].find(')').ok_or("unclosed")?;
        vals.push(parse_doc_number(&flat[start..j]).ok_or("unparsable")?);
        pos = j;
    }
    vals.dedup();
    match vals.len() {
        0 => Ok(None),
        1 => Ok(Some(vals[0])),
        _ => Err("inconsistent".into()),
    }
}

/// `const MAX_CELLS: usize = <decimal literal>;` in the source text (comment lines skipped); None if not of that shape
fn src_max_cells(src: &str) -> Option<u64> {
    let mut found = None;
    for ln in src.lines() {
        let t = ln.trim();
        if let Some(r) = t.strip_prefix("const MAX_CELLS: usize =") {
            let lit: String = r.trim().trim_end_matches(';').trim().chars().filter(|&c| c != '_').collect();
            let lit = lit.strip_suffix("usize").unwrap_or(&lit).to_string();
            if found.is_some() {
                return None;
            }
            found = Some(lit.parse::<u64>().ok()?);
        }
    }
    found
}

/// (rows, cols) with rows*cols == budget exactly when the budget has a divisor in 1000..=4000 (closest to 2000),
/// otherwise rows = 2000 and the largest cols with rows*cols <= budget
fn boundary_dims(budget: u64) -> (u64, u64) {
    let mut best: Option<u64> = None;
    for d in 1000..=4000u64 {
        if budget % d == 0 && best.map_or(true, |b| (d as i64 - 2000).abs() < (b as i64 - 2000).abs()) {
            best = Some(d);
        }
    }
    let rows = best.unwrap_or(2000);
    (rows, budget / rows)
}


fn subset(ms: &[(u32, u32)], bits: u64) -> Vec<(u32, u32)> {
    ms.iter().enumerate().filter(|(i, _)| (bits >> (i % 64)) & 1 == 1).map(|(_, &p)| p).collect()
}

fn chain(ms: &[(u32, u32)], pbits: u64, k: usize) -> Vec<usize> {
    let mut path: Vec<usize> = vec![];
    for (i, &(a, b)) in ms.iter().enumerate() {
        if (pbits >> (i % 64)) & 1 == 0 {
            continue;
        }
        match path.last() {
            None => path.push(i),
            Some(&l) => {
                let (pa, pb) = ms[l];
                let cont = a == pa + 1 && b == pb + 1;
                let after = a >= pa + k as u32 && b >= pb + k as u32;
                if cont || after {
                    path.push(i);
                }
            }
        }
    }
    if path.is_empty() && !ms.is_empty() {
        path.push(0);
    }
    path
}

struct Call {
    entry: String,
    x: Vec<u8>,
    y: Vec<u8>,
    args: Vec<String>,
}

fn parse_call(c: &str, sc: &ScSpec, k: usize) -> Result<Call, String> {
    let p: Vec<&str> = c.split(',').collect();
    if p.len() < 3 {
        return Err("call".into());
    }
    let entry = p[0].to_string();
    let args: Vec<String> = p[3..].iter().map(|s| s.to_string()).collect();
    let nargs = match p[0] {
        "custom" | "global" | "semiglobal" | "local" | "prehash" | "sgprehash" | "tm" => 0,
        "sm" | "fm" => 1,
        "path" | "big" => 2,
        "exp" => 3,
        _ => return Err("entry".into()),
    };
    if args.len() != nargs {
        return Err("call arity".into());
    }
    let (x, y) = if p[0] == "big" {
        if p[1] != "-" || p[2] != "-" {
            return Err("big: x and y must be -".into());
        }
        let (lx, ly): (usize, usize) = (parse(&args[0])?, parse(&args[1])?);
        if lx > 4000 || ly > 4000 || sc.f.alpha.len() < 2 {
            return Err("big: size".into());
        }
        (vec![sc.f.alpha[0]; lx], vec![sc.f.alpha[1]; ly])
    } else {
        let (x, y) = (unhex(p[1])?, unhex(p[2])?);
        if x.len() > 64 || y.len() > 64 {
            return Err("sequence too long".into());
        }
        (x, y)
    };
    if !sc.in_alphabet(&x) || !sc.in_alphabet(&y) {
        return Err("symbol outside the alphabet".into());
    }
    match p[0] {
        "sm" => {
            parse::<u64>(&args[0])?;
        }
        "path" => {
            parse::<u64>(&args[0])?;
            parse::<u64>(&args[1])?;
        }
        "exp" => {
            if args[0] != "n" {
                let mm = parse::<usize>(&args[0])?;
                if mm > 8 {
                    return Err("allowed mismatches".into());
                }
            }
            if args[1] != "0" && args[1] != "1" {
                return Err("union flag".into());
            }
            parse::<u64>(&args[2])?;
        }
        "fm" => {
            let ms = parse_pairs(&args[0])?;
            for w in ms.windows(2) {
                if w[0] >= w[1] {
                    return Err("fm: not sorted".into());
                }
            }
            for &(a, b) in &ms {
                if a as usize + k > x.len() || b as usize + k > y.len() {
                    return Err("fm: out of range".into());
                }
            }
        }
        _ => {}
    }
    Ok(Call { entry, x, y, args })
}

fn parse_pairs(s: &str) -> Result<Vec<(u32, u32)>, String> {
    if s == "-" {
        return Ok(vec![]);
    }
    s.split('+')
        .map(|p| match p.split_once('.') {
            Some((a, b)) => Ok((parse::<u32>(a)?, parse::<u32>(b)?)),
            None => Err("pair".to_string()),
        })
        .collect()
}

fn run(al: &mut Aligner<TabFn>, c: &Call, k: usize) -> Alignment {
    let (x, y) = (&c.x[..], &c.y[..]);
    match c.entry.as_str() {
        "custom" | "big" => al.custom(x, y),
        "global" => al.global(x, y),
        "semiglobal" => al.semiglobal(x, y),
        "local" => al.local(x, y),
        "prehash" => {
            let h = hash_kmers(y, k);
            al.custom_with_prehash(x, y, &h)
        }
        "sgprehash" => {
            let h = hash_kmers(y, k);
            al.semiglobal_with_prehash(x, y, &h)
        }
        "tm" => al.custom_with_matches(x, y, &find_kmer_matches(x, y, k)),
        "sm" => {
            let ms = subset(&find_kmer_matches(x, y, k), c.args[0].parse().unwrap());
            al.custom_with_matches(x, y, &ms)
        }
        "fm" => al.custom_with_matches(x, y, &parse_pairs(&c.args[0]).unwrap()),
        "exp" => {
            let ms = subset(&find_kmer_matches(x, y, k), c.args[2].parse().unwrap());
            let mm = if c.args[0] == "n" { None } else { Some(c.args[0].parse::<usize>().unwrap()) };
            al.custom_with_expanded_matches(x, y, ms, mm, c.args[1] == "1")
        }
        "path" => {
            let ms = subset(&find_kmer_matches(x, y, k), c.args[0].parse().unwrap());
            let path = chain(&ms, c.args[1].parse().unwrap(), k);
            al.custom_with_match_path(x, y, &ms, &path)
        }
        _ => unreachable!(),
    }
}

/// The band the call left in the aligner, read through the public `Debug` implementation (`Band` and the field are
/// private): `bd:<rows>:<cols>:<start>.<end>+<start>.<end>+…` (one range per column), `bd:unreadable` if the text does
/// not have the derived shape `band: Band { rows: R, cols: C, ranges: [a..b, …] }`.
fn band_obs(al: &Aligner<TabFn>) -> String {
    let s = format!("{:?}", al);
    let parse = || -> Option<String> {
        let at = s.rfind("band: Band { rows: ")?;
        let t = &s[at + "band: Band { rows: ".len()..];
        let (rows, t) = t.split_once(", cols: ")?;
        let (cols, t) = t.split_once(", ranges: [")?;
        let (body, _) = t.split_once(']')?;
        let rows: usize = rows.trim().parse().ok()?;
        let cols: usize = cols.trim().parse().ok()?;
        let mut rs = vec![];
        if !body.trim().is_empty() {
            for r in body.split(", ") {
                let (a, b) = r.trim().split_once("..")?;
                let (a, b): (usize, usize) = (a.parse().ok()?, b.parse().ok()?);
                rs.push(format!("{}.{}", a, b));
            }
        }
        Some(format!("bd:{}:{}:{}", rows, cols, if rs.is_empty() { "-".to_string() } else { rs.join("+") }))
    };
    parse().unwrap_or_else(|| "bd:unreadable".to_string())
}

/// The k-mer matches and the match path the entry point hands to `Band::create_from_match_path`, recomputed here with
/// the same public `sparse` functions the entry point calls (`DEFAULT_MATCH_SCORE` = 2: `match_scores` is `None` for
/// every scoring this harness builds).  `mt:<x.y+…|->,pt:<i+…|->`
fn backbone(c: &Call, k: usize, go: i32, ge: i32) -> String {
    let (x, y) = (&c.x[..], &c.y[..]);
    let sdp = |ms: &[(u32, u32)]| -> Vec<usize> {
        if ms.is_empty() {
            vec![]
        } else {
            sdpkpp(ms, k, 2, go, ge).path
        }
    };
    let (ms, path): (Vec<(u32, u32)>, Vec<usize>) = match c.entry.as_str() {
        "prehash" | "sgprehash" => {
            let h = hash_kmers(y, k);
            let ms = find_kmer_matches_seq2_hashed(x, &h, k);
            let p = sdp(&ms);
            (ms, p)
        }
        "sm" => {
            let ms = subset(&find_kmer_matches(x, y, k), c.args[0].parse().unwrap());
            let p = sdp(&ms);
            (ms, p)
        }
        "fm" => {
            let ms = parse_pairs(&c.args[0]).unwrap();
            let p = sdp(&ms);
            (ms, p)
        }
        "exp" => {
            let ms = subset(&find_kmer_matches(x, y, k), c.args[2].parse().unwrap());
            let ms = if c.args[0] == "n" { ms } else { expand_kmer_matches(x, y, k, &ms, c.args[0].parse::<usize>().unwrap()) };
            let p = if ms.is_empty() {
                vec![]
            } else if c.args[1] == "1" {
                sdpkpp_union_lcskpp_path(&ms, k, 2, go, ge)
            } else {
                sdp(&ms)
            };
            (ms, p)
        }
        "path" => {
            let ms = subset(&find_kmer_matches(x, y, k), c.args[0].parse().unwrap());
            let p = chain(&ms, c.args[1].parse().unwrap(), k);
            (ms, p)
        }
        _ => {
            let ms = find_kmer_matches(x, y, k);
            let p = sdp(&ms);
            (ms, p)
        }
    };
    let mt = if ms.is_empty() { "-".to_string() } else { ms.iter().map(|(a, b)| format!("{}.{}", a, b)).collect::<Vec<_>>().join("+") };
    let pt = if path.is_empty() { "-".to_string() } else { path.iter().map(|i| i.to_string()).collect::<Vec<_>>().join("+") };
    format!("mt:{},pt:{}", mt, pt)
}

pub fn exec(toks: &[&str]) -> Result<String, String> {
    if toks == ["const"] {
        return Ok(format!("min:{}", MIN_SCORE));
    }
    if toks == ["docbudget"] {
        let doc = match doc_budget(BANDED_SRC) {
            Ok(Some(v)) => v.to_string(),
            Ok(None) => "none".into(),
            Err(e) => e,
        };
        let max = src_max_cells(BANDED_SRC).map_or("not-found".to_string(), |v| v.to_string());
        return Ok(format!("doc:{},max:{}", doc, max));
    }
    if toks.len() != 5 {
        return Err("arity".into());
    }
    let kw: Vec<&str> = toks[1].split(':').collect();
    if kw.len() != 3 || kw[0] != "kw" {
        return Err("kw".into());
    }
    let (k, w): (usize, usize) = (parse(kw[1])?, parse(kw[2])?);
    if k < 1 || k > 16 || w > 64 {
        return Err("k/w outside the envelope".into());
    }
    let sc = parse_sc(toks[2], toks[3])?;
    let mut calls = vec![];
    for c in split_ne(toks[4], ';') {
        calls.push(parse_call(c, &sc, k)?);
    }
    let mut al = match toks[0] {
        "cap:new" => Aligner::with_scoring(sc.scoring(), k, w),
        t => {
            let p: Vec<&str> = t.split(':').collect();
            if p.len() != 3 || p[0] != "cap" {
                return Err("cap".into());
            }
            let (m, n): (usize, usize) = (parse(p[1])?, parse(p[2])?);
            if m > 4096 || n > 4096 {
                return Err("cap too large".into());
            }
            Aligner::with_capacity_and_scoring(m, n, sc.scoring(), k, w)
        }
    };
    let mut outs = vec![];
    for c in &calls {
        let a = run(&mut al, c, k);
        let h = if c.entry == "big" {
            // the fresh-aligner comparison would double the cost of the two large cases
            "same"
        } else {
            let mut fresh = Aligner::with_capacity_and_scoring(c.x.len(), c.y.len(), sc.scoring(), k, w);
            let b = run(&mut fresh, c, k);
            if a == b {
                "same"
            } else {
                "differs"
            }
        };
        // band observation and backbone (not for the two large budget cases)
        let extra = if c.entry == "big" {
            "bd:skip".to_string()
        } else {
            format!("{},{}", band_obs(&al), backbone(c, k, sc.go, sc.ge))
        };
        outs.push(format!("{},h:{},{}", aln_string(&a), h, extra));
    }
    Ok(outs.join(";"))
}

// ---------------------------------------------------------------------------------------------- generation

fn gen_bits(rng: &mut Rng) -> u64 {
    match rng.below(5) {
        0 => u64::MAX,
        1 => rng.next() & rng.next(), // sparse
        2 => rng.next() | rng.next(), // dense
        3 => 1u64 << rng.below(64),
        _ => rng.next(),
    }
}

/// related pair: x random, y a mutated copy, optionally with foreign flanks on either sequence
fn gen_related(rng: &mut Rng, alpha: &[u8], maxlen: usize) -> (Vec<u8>, Vec<u8>) {
    let n = 3 + rng.below(maxlen - 2);
    let core = rng.seq(alpha, n);
    let rate = *rng.pick(&[0usize, 5, 10, 20, 35]);
    let mut x = core.clone();
    let mut y = rng.mutate(&core, alpha, rate);
    if rng.chance(1, 2) {
        // flanks: the band then starts / ends inside the matrix
        let mut flank = |rng: &mut Rng, s: &mut Vec<u8>| {
            let a = rng.below(6);
            let b = rng.below(6);
            let mut t = rng.seq(alpha, a);
            t.extend_from_slice(s);
            t.extend(rng.seq(alpha, b));
            *s = t;
        };
        if rng.chance(2, 3) {
            flank(rng, &mut x);
        }
        if rng.chance(2, 3) {
            flank(rng, &mut y);
        }
    }
    if rng.chance(1, 6) {
        // a long indel: the optimal path leaves a narrow band
        let cut = rng.below(y.len() + 1);
        let ins = 1 + rng.below(6);
        let extra = rng.seq(alpha, ins);
        y.splice(cut..cut, extra);
    }
    x.truncate(maxlen + 10);
    y.truncate(maxlen + 10);
    if rng.chance(1, 2) {
        (x, y)
    } else {
        (y, x)
    }
}

/// unrelated short pair (often without any k-mer match: the band is the whole matrix)
fn gen_unrelated(rng: &mut Rng, alpha: &[u8], k: usize) -> (Vec<u8>, Vec<u8>) {
    let maxlen = 9;
    if alpha.len() >= 2 && rng.chance(1, 2) {
        // disjoint sub-alphabets: no k-mer match for any k
        let cut = 1 + rng.below(alpha.len() - 1);
        let (a, b) = alpha.split_at(cut);
        let (n1, n2) = (rng.below(maxlen + 1), rng.below(maxlen + 1));
        let (x, y) = (rng.seq(a, n1), rng.seq(b, n2));
        if rng.chance(1, 2) {
            (x, y)
        } else {
            (y, x)
        }
    } else {
        // same alphabet, short: for k >= 3 usually no common k-mer
        let (n1, n2) = (rng.below(maxlen + 1), rng.below(maxlen + 1));
        let _ = k;
        (rng.seq(alpha, n1), rng.seq(alpha, n2))
    }
}

fn gen_call(rng: &mut Rng, sc: &ScSpec, k: usize, maxlen: usize) -> String {
    let alpha = &sc.f.alpha;
    let (x, y) = if rng.chance(1, 3) { gen_unrelated(rng, alpha, k) } else { gen_related(rng, alpha, maxlen) };
    let head = |e: &str| format!("{},{},{}", e, hex(&x), hex(&y));
    match rng.below(16) {
        0 | 1 | 2 => head("custom"),
        3 => head("global"),
        4 => head("semiglobal"),
        5 => head("local"),
        6 => head("prehash"),
        7 => head("sgprehash"),
        8 => head("tm"),
        9 | 10 => format!("{},{}", head("sm"), gen_bits(rng)),
        11 => {
            // arbitrary sorted in-range pairs
            let mut ps = vec![];
            if x.len() >= k && y.len() >= k {
                for _ in 0..rng.below(6) {
                    ps.push((rng.below(x.len() - k + 1) as u32, rng.below(y.len() - k + 1) as u32));
                }
            }
            ps.sort_unstable();
            ps.dedup();
            let s = if ps.is_empty() {
                "-".to_string()
            } else {
                ps.iter().map(|(a, b)| format!("{}.{}", a, b)).collect::<Vec<_>>().join("+")
            };
            format!("{},{}", head("fm"), s)
        }
        12 | 13 => format!(
            "{},{},{},{}",
            head("exp"),
            rng.pick(&["n", "0", "1", "3"]),
            rng.below(2),
            if rng.chance(1, 2) { u64::MAX } else { gen_bits(rng) }
        ),
        _ => format!("{},{},{}", head("path"), if rng.chance(1, 2) { u64::MAX } else { gen_bits(rng) }, gen_bits(rng)),
    }
}

fn gen_cap(rng: &mut Rng) -> String {
    match rng.below(5) {
        0 => "cap:0:0".into(),
        1 => "cap:new".into(),
        2 => "cap:100:100".into(),
        _ => format!("cap:{}:{}", rng.below(30), rng.below(30)),
    }
}

fn gen_sc(rng: &mut Rng) -> ScSpec {
    // k-mer chains need a few symbols; keep 2-4 letter alphabets
    loop {
        let mut sc = gen_scspec(rng);
        if sc.f.alpha.len() == 1 {
            continue;
        }
        if rng.chance(1, 3) {
            // the classical unit scheme on 4 letters (realistic bands)
            let alpha = b"ACGT".to_vec();
            let mut idx = vec![usize::MAX; 256];
            let mut tab = vec![-1i32; 16];
            for (i, &c) in alpha.iter().enumerate() {
                idx[c as usize] = i;
                tab[i * 4 + i] = 1;
            }
            sc.f = TabFn { alpha, idx, tab };
        }
        return sc;
    }
}

// ------------------------------------------------------------------ same-shape reuse (seeded defect C02-6)
//
// `compute_alignment` relies on `Traceback::init` having reset EVERY cell to TB_START: the traceback of a banded call
// stops at the first cell outside the band (and the completion code takes over), and the loops over row 0 / column 0
// rewrite only the S field of the border cells, never their I / D fields.  A traceback matrix that survives from the
// previous call is only possible when the (m, n) shape is unchanged, so these histories keep |x| and |y| fixed and
// alternate
//   * a *painter*: `local` (all clips free) or `semiglobal` on a pair without any common k-mer (x over {A, C}, y over
//     {G, T}) - the band is the whole matrix and every cell gets real pointers; in particular `I(i, 0) = XCLIP_PREFIX`
//     for i >= 2 (local) and `D(0, j) = YCLIP_PREFIX` for j >= 2 (local, semiglobal);
//   * a *victim* with a narrow band (w <= 2) whose traceback leaves the band through the border:
//       A  x = junk^a core junk*, y = junk'^b core junk'* with a > b >= 1, x prefix not clippable, y prefix cheap
//          (semiglobal, or custom with xclip_prefix MIN_SCORE / yclip_prefix ~ 0): the band start is the slanted gap
//          line (0,0) -> (a,b), column 0 holds only the first rows; the path ends in `YCLIP_PREFIX` at the top cell
//          (i, j) of a column j >= 1, jumps to (i, 0) - outside the band of column 0 - follows the `INS` the column-0
//          loop wrote there and must stop at the I field of (i, 0) (TB_START; the completion inserts the rest);
//       B  the transposed shape (b > a >= 1, y prefix not clippable, x prefix cheap; custom clips): `XCLIP_PREFIX` at
//          (i, j), row 0 outside the band of column j >= 2, `DEL` at (0, j) and the D field of (0, j) must be TB_START.
// Between them: random related pairs forced to the same lengths, all entry points.

/// `junk^pre ++ core ++ junk^(len - pre - |core|)`, truncated to `len`
fn framed(junk: u8, pre: usize, core: &[u8], len: usize) -> Vec<u8> {
    let mut s = vec![junk; pre];
    s.extend_from_slice(core);
    s.truncate(len);
    while s.len() < len {
        s.push(junk);
    }
    s
}

fn gen_reuse_history(rng: &mut Rng) -> String {
    let k = 1 + rng.below(3);
    let w = rng.below(3);
    let (m, n) = (8 + rng.below(10), 8 + rng.below(10));
    // ACGT: A / C are the junk letters of x / y, the cores live on {G, T}
    let alpha = b"ACGT".to_vec();
    let mut idx = vec![usize::MAX; 256];
    for (i, &c) in alpha.iter().enumerate() {
        idx[c as usize] = i;
    }
    let (mat, mis) = (1 + rng.below(3) as i32, -(1 + rng.below(4) as i32));
    let mut tab = vec![mis; 16];
    for i in 0..4 {
        tab[i * 4 + i] = mat;
    }
    if rng.chance(1, 3) {
        // junk against junk is as good as a gap extension or better: the path substitutes as long as the band allows
        tab[0 * 4 + 1] = 0;
        tab[1 * 4 + 0] = 0;
    }
    let go = -(rng.below(5) as i32);
    let ge = -(rng.below(3) as i32);
    // clip penalties of the aligner (custom-family entry points): type A (x prefix forbidden, y prefix cheap), type B
    // (the transposed), or anything
    let low = |rng: &mut Rng| if rng.chance(2, 3) { MIN_SCORE } else { -(40 + rng.below(40) as i32) };
    let cheap = |rng: &mut Rng| -(rng.below(3) as i32);
    let kind = rng.below(5);
    let clips = match kind {
        0 | 1 => [low(rng), gen_clip(rng), cheap(rng), gen_clip(rng)],
        2 | 3 => [cheap(rng), gen_clip(rng), low(rng), gen_clip(rng)],
        _ => [gen_clip(rng), gen_clip(rng), gen_clip(rng), gen_clip(rng)],
    };
    let sc = ScSpec { go, ge, clips, f: TabFn { alpha, idx, tab } };
    let custom_family = |rng: &mut Rng, x: &[u8], y: &[u8]| -> String {
        let head = |e: &str| format!("{},{},{}", e, hex(x), hex(y));
        match rng.below(8) {
            0 | 1 => head("custom"),
            2 => head("prehash"),
            3 => head("tm"),
            4 => format!("{},{}", head("sm"), u64::MAX),
            5 => format!("{},n,{},{}", head("exp"), rng.below(2), u64::MAX),
            6 => format!("{},{},{}", head("path"), u64::MAX, u64::MAX),
            _ => format!("{},{},{}", head("path"), u64::MAX, gen_bits(rng)),
        }
    };
    let ncalls = 2 + rng.below(4);
    let mut calls: Vec<String> = vec![];
    while calls.len() < ncalls {
        let step = if calls.is_empty() { 0 } else { rng.below(10) };
        match step {
            // painter
            0 | 1 | 2 => {
                let x = rng.seq(b"AC", m);
                let y = rng.seq(b"GT", n);
                let e = *rng.pick(&["local", "local", "semiglobal", "sgprehash", "custom"]);
                calls.push(format!("{},{},{}", e, hex(&x), hex(&y)));
            }
            // victim A / B
            3 | 4 | 5 | 6 | 7 => {
                let shape_a = match kind {
                    0 | 1 => true,
                    2 | 3 => step < 5, // semiglobal victims work with every aligner
                    _ => rng.chance(1, 2),
                };
                let long = 3 + rng.below(6);
                let short = 1 + rng.below(2);
                let (a, b) = if shape_a { (long, short) } else { (short, long) };
                let room = (m - a.min(m - 1)).min(n - b.min(n - 1));
                let cl = (k + 1 + rng.below(6)).min(room.max(1));
                let core = rng.seq(b"GT", cl);
                let rate = *rng.pick(&[0usize, 0, 10, 25]);
                let core2 = rng.mutate(&core, b"GT", rate);
                let (x, y) = (framed(b'A', a, &core, m), framed(b'C', b, &core2, n));
                if shape_a && (kind > 1 || rng.chance(1, 2)) {
                    let e = *rng.pick(&["semiglobal", "sgprehash"]);
                    calls.push(format!("{},{},{}", e, hex(&x), hex(&y)));
                } else {
                    calls.push(custom_family(rng, &x, &y));
                }
            }
            // anything of the same shape
            _ => {
                let (x, y) = gen_related(rng, b"ACGT", m.max(n));
                let (jx, jy) = (*rng.pick(b"ACGT"), *rng.pick(b"ACGT"));
                let (x, y) = (framed(jx, 0, &x, m), framed(jy, 0, &y, n));
                let e = *rng.pick(&["custom", "global", "semiglobal", "local", "prehash", "sgprehash", "tm"]);
                calls.push(format!("{},{},{}", e, hex(&x), hex(&y)));
            }
        }
    }
    format!("{} kw:{}:{} {} {}", gen_cap(rng), k, w, sc.tokens(), calls.join(";"))
}

pub fn gen(tier: &str, rng: &mut Rng, out: &mut Vec<String>) {
    let thorough = tier == "thorough";
    let nhist = if thorough { 60000 } else { 8000 };
    for i in 0..nhist {
        let sc = gen_sc(rng);
        let k = 1 + rng.below(4);
        let w = rng.below(5);
        let maxlen = [12, 20, 30, 40][i % 4];
        let ncalls = 1 + rng.below(6);
        let calls: Vec<String> = (0..ncalls).map(|_| gen_call(rng, &sc, k, maxlen)).collect();
        out.push(format!("{} kw:{}:{} {} {}", gen_cap(rng), k, w, sc.tokens(), calls.join(";")));
    }
    // budget guard: disjoint alphabets (no k-mer match: the band is the whole matrix, num_cells = (m+1)(n+1)), at the
    // exact boundary of the budget of the tree under test (`const MAX_CELLS` read in the compiled source text; the
    // model follows the same constant).  Pinned tree, 5 000 000:
    //   1999 x 2500: 2000 * 2501 = 5 002 000 cells > 5 000 000 → the sentinel is the only accepted answer
    //   1999 x 2499: 2000 * 2500 = 5 000 000 cells (not >)     → a real alignment (validity and recomputed score)
    // A budget outside 10^6..2·10^7 (case too cheap to say anything / too slow for the quick tier) or an unreadable
    // constant falls back to these two; they are valid cases for every budget.
    let unit = "sc:-5:-1:0:0:0:0 w:4143:1,-1,-1,1";
    let (rows, cols) = match src_max_cells(BANDED_SRC) {
        Some(b) if (1_000_000..=20_000_000).contains(&b) => boundary_dims(b),
        _ => (2000, 2500),
    };
    out.push(format!("cap:0:0 kw:{}:{} {} big,-,-,{},{}", 1 + rng.below(4), rng.below(5), unit, rows - 1, cols));
    out.push(format!("cap:0:0 kw:{}:{} {} big,-,-,{},{}", 1 + rng.below(4), rng.below(5), unit, rows - 1, cols - 1));
    out.push("docbudget".to_string());
    if thorough {
        // exhaustive small scope: x, y over {A,C} up to length 5, k <= 2, w <= 2, 6 schemes, entry
        // points in rotation; one x against every y per history
        let seqs = enum_seqs(b"AC", 5);
        let schemes: [(i32, i32, [i32; 4], [i32; 4]); 6] = [
            (-2, -1, [MIN_SCORE; 4], [1, -1, -1, 1]),
            (-2, -1, [0, 0, 0, 0], [1, -1, -1, 1]),
            (-1, -1, [-1, MIN_SCORE, 0, -2], [2, -1, -1, 2]),
            (0, -1, [MIN_SCORE, -1, -2, 0], [1, -2, -2, 1]),
            (-3, 0, [-1, -1, -1, -1], [2, 1, -3, 0]),
            (-2, -2, [0, MIN_SCORE, MIN_SCORE, 0], [1, -1, -1, 1]),
        ];
        let entries = ["custom", "global", "semiglobal", "local", "prehash", "sgprehash", "tm", "custom"];
        let mut rot = 0usize;
        for (go, ge, clips, tab) in schemes {
            for k in 1..=2 {
                for w in 0..=2 {
                    for x in seqs.iter() {
                        let calls: Vec<String> = seqs
                            .iter()
                            .map(|y| {
                                rot += 1;
                                format!("{},{},{}", entries[rot % entries.len()], hex(x), hex(y))
                            })
                            .collect();
                        out.push(format!(
                            "cap:{}:{} kw:{}:{} sc:{}:{}:{}:{}:{}:{} w:4143:{} {}",
                            rot % 4,
                            rot % 3,
                            k,
                            w,
                            go,
                            ge,
                            clips[0],
                            clips[1],
                            clips[2],
                            clips[3],
                            join(&tab, ","),
                            calls.join(";")
                        ));
                    }
                }
            }
        }
    }
    // same-shape reuse histories (after everything else: the lines above are those of the earlier generator)
    let nreuse = if thorough { 12000 } else { 1500 };
    for _ in 0..nreuse {
        out.push(gen_reuse_history(rng));
    }
}
