//! rbh gen <prop> <tier> <seed>          print the generated input lines
//! rbh exec <file> [skip]                run every input line of <file> (after skipping `skip` lines) against
//!                                       the real implementation; prints `<input> => <observation>` per line,
//!                                       the input part is flushed *before* the call so that a hang or an abort
//!                                       can be attributed to its case by the orchestrator.
use std::io::{BufRead, Write};
use std::panic;

fn panic_class(e: &(dyn std::any::Any + Send)) -> String {
    let msg = if let Some(s) = e.downcast_ref::<&str>() {
        s.to_string()
    } else if let Some(s) = e.downcast_ref::<String>() {
        s.clone()
    } else {
        "unknown".to_string()
    };
    let mut m: String = msg
        .chars()
        .map(|c| if c.is_ascii_alphanumeric() { c.to_ascii_lowercase() } else { '-' })
        .collect();
    while m.contains("--") {
        m = m.replace("--", "-");
    }
    m.truncate(80);
    m
}

fn main() {
    let args: Vec<String> = std::env::args().collect();
    if args.len() >= 5 && args[1] == "gen" {
        let seed: u64 = args[4].parse().expect("seed");
        let stdout = std::io::stdout();
        let mut w = std::io::BufWriter::new(stdout.lock());
        for l in rbharness::gen(&args[2], &args[3], seed) {
            if writeln!(w, "{}", l).is_err() {
                return;
            }
        }
        return;
    }
    if args.len() >= 3 && args[1] == "exec" {
        let skip: usize = if args.len() >= 4 { args[3].parse().expect("skip") } else { 0 };
        panic::set_hook(Box::new(|_| {}));
        let f = std::fs::File::open(&args[2]).expect("case file");
        let stdout = std::io::stdout();
        let mut w = stdout.lock();
        for line in std::io::BufReader::new(f).lines().skip(skip) {
            let line = line.unwrap();
            let line = line.trim_end().to_string();
            write!(w, "{} => ", line).unwrap();
            w.flush().unwrap();
            let l2 = line.clone();
            let r = panic::catch_unwind(move || rbharness::exec(&l2));
            let obs = match r {
                Ok(Ok(s)) => s,
                Ok(Err(e)) => format!("BADCASE {}", e.replace(' ', "-")),
                Err(e) => format!("PANIC {}", panic_class(&*e)),
            };
            writeln!(w, "{}", obs).unwrap();
            w.flush().unwrap();
        }
        return;
    }
    eprintln!("usage: rbh gen <prop> <tier> <seed> | rbh exec <file> [skip]");
    std::process::exit(2);
}
