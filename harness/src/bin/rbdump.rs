//! rbdump <what>   — dumps of run-time-built tables of rust-bio over their *complete* finite domain
//! (source-extracted obligations, DESIGN §8).  Used by tools/gen_tables.py.
//!
//! rbdump complement      two lines: `dna v0 v1 … v255` and `rna v0 v1 … v255`
//!                        (vi = bio::alphabets::{dna,rna}::complement(i))
fn main() {
    let args: Vec<String> = std::env::args().collect();
    if args.len() >= 2 && args[1] == "complement" {
        let dna: Vec<String> = (0..=255u8).map(|b| bio::alphabets::dna::complement(b).to_string()).collect();
        let rna: Vec<String> = (0..=255u8).map(|b| bio::alphabets::rna::complement(b).to_string()).collect();
        println!("dna {}", dna.join(" "));
        println!("rna {}", rna.join(" "));
        return;
    }
    eprintln!("usage: rbdump complement");
    std::process::exit(2);
}
