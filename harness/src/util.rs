//! Shared helpers: PRNG (one state per run, derived from VERIF_SEED), hex codec, list codecs.

/// splitmix64 — small, deterministic, no dependency.
pub struct Rng(pub u64);

impl Rng {
    pub fn new(seed: u64) -> Self {
        Rng(seed.wrapping_mul(0x9E37_79B9_7F4A_7C15) ^ 0xD1B5_4A32_D192_ED03)
    }
    pub fn next(&mut self) -> u64 {
        self.0 = self.0.wrapping_add(0x9E37_79B9_7F4A_7C15);
        let mut z = self.0;
        z = (z ^ (z >> 30)).wrapping_mul(0xBF58_476D_1CE4_E5B9);
        z = (z ^ (z >> 27)).wrapping_mul(0x94D0_49BB_1331_11EB);
        z ^ (z >> 31)
    }
    /// uniform in 0..n (n > 0)
    pub fn below(&mut self, n: usize) -> usize {
        (self.next() % (n as u64)) as usize
    }
    /// uniform in lo..=hi
    pub fn range(&mut self, lo: i64, hi: i64) -> i64 {
        lo + (self.next() % ((hi - lo + 1) as u64)) as i64
    }
    pub fn chance(&mut self, num: usize, den: usize) -> bool {
        self.below(den) < num
    }
    pub fn pick<'a, T>(&mut self, xs: &'a [T]) -> &'a T {
        &xs[self.below(xs.len())]
    }
    /// random sequence of length `len` over `alphabet`
    pub fn seq(&mut self, alphabet: &[u8], len: usize) -> Vec<u8> {
        (0..len).map(|_| *self.pick(alphabet)).collect()
    }
    /// a copy of `s` with about `rate_pct` % point mutations / insertions / deletions
    pub fn mutate(&mut self, s: &[u8], alphabet: &[u8], rate_pct: usize) -> Vec<u8> {
        let mut out = Vec::with_capacity(s.len() + 4);
        for &c in s {
            if self.chance(rate_pct, 100) {
                match self.below(3) {
                    0 => out.push(*self.pick(alphabet)),
                    1 => {}
                    _ => {
                        out.push(*self.pick(alphabet));
                        out.push(c);
                    }
                }
            } else {
                out.push(c);
            }
        }
        out
    }
}

pub fn hex(b: &[u8]) -> String {
    if b.is_empty() {
        return "-".to_string();
    }
    let mut s = String::with_capacity(b.len() * 2);
    for x in b {
        s.push_str(&format!("{:02x}", x));
    }
    s
}

pub fn unhex(s: &str) -> Result<Vec<u8>, String> {
    if s == "-" {
        return Ok(vec![]);
    }
    if s.len() % 2 != 0 {
        return Err("odd hex".into());
    }
    let b = s.as_bytes();
    let v = |c: u8| -> Result<u8, String> {
        match c {
            b'0'..=b'9' => Ok(c - b'0'),
            b'a'..=b'f' => Ok(c - b'a' + 10),
            _ => Err("bad hex".into()),
        }
    };
    let mut out = Vec::with_capacity(b.len() / 2);
    for i in (0..b.len()).step_by(2) {
        out.push(v(b[i])? * 16 + v(b[i + 1])?);
    }
    Ok(out)
}

/// `sep`-joined list, `-` when empty
pub fn join<T: ToString>(xs: &[T], sep: &str) -> String {
    if xs.is_empty() {
        "-".to_string()
    } else {
        xs.iter().map(|x| x.to_string()).collect::<Vec<_>>().join(sep)
    }
}

pub fn split_list<'a>(s: &'a str, sep: char) -> Vec<&'a str> {
    if s == "-" {
        vec![]
    } else {
        s.split(sep).collect()
    }
}

/// non-empty list: `-` is an item, not the empty list
pub fn split_ne<'a>(s: &'a str, sep: char) -> Vec<&'a str> {
    s.split(sep).collect()
}

pub fn parse_list<T: std::str::FromStr>(s: &str, sep: char) -> Result<Vec<T>, String> {
    split_list(s, sep)
        .into_iter()
        .map(|x| x.parse::<T>().map_err(|_| format!("bad number {}", x)))
        .collect()
}

pub fn parse<T: std::str::FromStr>(s: &str) -> Result<T, String> {
    s.parse::<T>().map_err(|_| format!("bad number {}", s))
}

/// `k:v` → v
pub fn kv<'a>(tok: &'a str, key: &str) -> Result<&'a str, String> {
    match tok.split_once(':') {
        Some((k, v)) if k == key => Ok(v),
        _ => Err(format!("expected {}:…, got {}", key, tok)),
    }
}
