//! C20 — ORF finder, complements, alphabets / rank transform, GC content.
//!
//! orf <starts> <stops> <min_len> <seq>      starts/stops: `,`-lists of 3-byte codons (hex), disjoint sets
//!        => `s:e:o,s:e:o,…` (Orf{start,end,offset} in the order `find_all` yields them) or `-`
//! rc <dna|rna> <seq>                        => `<revcomp(seq)> <revcomp(revcomp(seq))>`
//! comp <dna|rna>                            => hex of complement(0), …, complement(255)
//! alpha <symbols> <t1>/<t2>/…               Alphabet::new(symbols), RankTransform::new(&alphabet)
//!        => `len:<n> max:<m|n> emp:<0|1> w:<is_word bits> r:<get(s) for each given symbol> t:<transform(ti)|nw>/… ra:<0|1>`
//!           (transform only for texts that are words; ra = RankTransform::alphabet() == alphabet)
//! gc <seq>  (non-empty)                     => `<gc_content {:e}> <gc3_content {:e}>`
use crate::util::*;
use bio::alphabets::{self, Alphabet, RankTransform};
use bio::seq_analysis::{gc, orf};

fn codons(tok: &str) -> Result<Vec<[u8; 3]>, String> {
    let mut out = vec![];
    for c in split_list(tok, ',') {
        let b = unhex(c)?;
        if b.len() != 3 {
            return Err("codon must have 3 bytes".into());
        }
        out.push([b[0], b[1], b[2]]);
    }
    Ok(out)
}

fn fmt_codons(cs: &[[u8; 3]]) -> String {
    if cs.is_empty() {
        "-".into()
    } else {
        cs.iter().map(|c| hex(c)).collect::<Vec<_>>().join(",")
    }
}

fn rand_codon(rng: &mut Rng, alpha: &[u8]) -> [u8; 3] {
    [*rng.pick(alpha), *rng.pick(alpha), *rng.pick(alpha)]
}

fn gen_orf(rng: &mut Rng) -> String {
    let alpha: Vec<u8> = match rng.below(8) {
        0 => b"AT".to_vec(),
        1 => b"AG".to_vec(),
        2 | 3 => b"ATG".to_vec(),
        4 | 5 | 6 => b"ATGC".to_vec(),
        _ => vec![0, 255, b'A', 7],
    };
    let classic = alpha.len() >= 3 && alpha[..3] == *b"ATG" && rng.chance(1, 2);
    let (starts, stops): (Vec<[u8; 3]>, Vec<[u8; 3]>) = if classic {
        let mut st = vec![*b"ATG"];
        if rng.chance(1, 4) {
            st.push(*b"GTG");
        }
        let mut sp = vec![*b"TGA", *b"TAG", *b"TAA"];
        sp.truncate(1 + rng.below(3));
        (st, sp)
    } else {
        let ns = 1 + rng.below(3);
        let np = 1 + rng.below(3);
        let mut st: Vec<[u8; 3]> = vec![];
        while st.len() < ns {
            let c = rand_codon(rng, &alpha);
            if !st.contains(&c) {
                st.push(c);
            }
        }
        let mut sp: Vec<[u8; 3]> = vec![];
        let mut tries = 0;
        while sp.len() < np && tries < 50 {
            tries += 1;
            let c = rand_codon(rng, &alpha);
            if !st.contains(&c) && !sp.contains(&c) {
                sp.push(c);
            }
        }
        if rng.chance(1, 25) {
            sp.clear(); // no stop codon at all: nothing may be reported
        }
        (st, sp)
    };
    let seq: Vec<u8> = match rng.below(5) {
        0 => {
            let n = rng.below(121);
            rng.seq(&alpha, n)
        }
        1 => {
            let n = rng.below(12);
            rng.seq(&alpha, n)
        }
        _ => {
            // codon-structured: starts, stops, fillers and frame shifts, so that starts nest inside one frame
            // and open frames overlap across the three offsets
            let mut s = vec![];
            let target = 3 + rng.below(118);
            let p_start = 1 + rng.below(4);
            let p_stop = 1 + rng.below(3);
            while s.len() < target {
                match rng.below(10) {
                    x if x < p_start => {
                        let c: [u8; 3] = *rng.pick(&starts[..]);
                        s.extend_from_slice(&c)
                    }
                    x if x < p_start + p_stop && !stops.is_empty() => {
                        let c: [u8; 3] = *rng.pick(&stops[..]);
                        s.extend_from_slice(&c)
                    }
                    9 => {
                        let k = 1 + rng.below(2);
                        s.extend(rng.seq(&alpha, k))
                    }
                    _ => {
                        let c = rand_codon(rng, &alpha);
                        s.extend_from_slice(&c)
                    }
                }
            }
            s.truncate(120);
            if rng.chance(1, 3) {
                // cut inside the last codon: an open frame running into the end of the sequence
                let cut = rng.below(3.min(s.len()) + 1);
                s.truncate(s.len() - cut);
            }
            s
        }
    };
    let min_len = match rng.below(10) {
        0 | 1 | 2 => 0,
        3 | 4 | 5 => rng.below(13),
        6 | 7 => 3 * rng.below(8) + rng.below(3), // around the multiples of three that ORF lengths take
        _ => rng.below(41),
    };
    format!("orf {} {} {} {}", fmt_codons(&starts), fmt_codons(&stops), min_len, hex(&seq))
}

fn gen_alpha(rng: &mut Rng) -> String {
    let n = match rng.below(10) {
        0 => 0,
        1 => 1,
        2 => 256,
        3 => 255,
        4 | 5 => 2 + rng.below(6),
        _ => 1 + rng.below(256),
    };
    // a random subset of the byte values of size ≤ n, given in random order and with repetitions
    let mut syms: Vec<u8> = match rng.below(4) {
        0 => (0..n).map(|i| i as u8).collect(), // initial segment incl. 0
        1 => (0..n).map(|i| (255 - (i % 256)) as u8).collect(), // final segment incl. 255
        _ => (0..n).map(|_| rng.below(256) as u8).collect(),
    };
    for i in (1..syms.len()).rev() {
        let j = rng.below(i + 1);
        syms.swap(i, j);
    }
    if !syms.is_empty() && rng.chance(1, 3) {
        let d = syms[rng.below(syms.len())];
        syms.push(d);
    }
    let all: Vec<u8> = (0..=255).collect();
    let k = 1 + rng.below(3);
    let texts: Vec<String> = (0..k)
        .map(|_| {
            let len = rng.below(20);
            let t = if syms.is_empty() || rng.chance(1, 3) {
                // mostly members, one position possibly not
                let mut t = if syms.is_empty() { vec![] } else { rng.seq(&syms, len) };
                if rng.chance(2, 3) {
                    let c = *rng.pick(&all);
                    let pos = rng.below(t.len() + 1);
                    t.insert(pos, c);
                }
                t
            } else {
                rng.seq(&syms, len)
            };
            hex(&t)
        })
        .collect();
    format!("alpha {} {}", hex(&syms), texts.join("/"))
}

fn gen_rc(rng: &mut Rng) -> String {
    let kind = if rng.chance(1, 2) { "dna" } else { "rna" };
    let all: Vec<u8> = (0..=255).collect();
    let alpha: &[u8] = match rng.below(4) {
        0 => b"ACGTUacgtu",
        1 => b"ACGTURYSWKMBDHVNZacguryswkmbdhvnzt",
        2 => b"ACGTN-*.xX@[`{",
        _ => &all,
    };
    let n = rng.below(40);
    format!("rc {} {}", kind, hex(&rng.seq(alpha, n)))
}

fn gen_gc(rng: &mut Rng) -> String {
    let all: Vec<u8> = (0..=255).collect();
    let alpha: &[u8] = match rng.below(5) {
        0 => b"GC",
        1 => b"AT",
        2 => b"ACGTacgt",
        3 => b"GCgcSsNn",
        _ => &all,
    };
    let n = match rng.below(6) {
        0 => 1 + rng.below(3),
        1 => 3000 + rng.below(4000),
        _ => 1 + rng.below(200),
    };
    format!("gc {}", hex(&rng.seq(alpha, n)))
}

fn enum_seqs(alpha: &[u8], maxlen: usize) -> Vec<Vec<u8>> {
    let mut out = vec![];
    let mut cur: Vec<Vec<u8>> = vec![vec![]];
    for _ in 0..=maxlen {
        out.extend(cur.iter().cloned());
        let mut nxt = Vec::with_capacity(cur.len() * alpha.len());
        for s in &cur {
            for &a in alpha {
                let mut t = s.clone();
                t.push(a);
                nxt.push(t);
            }
        }
        cur = nxt;
    }
    out
}

pub fn gen(tier: &str, rng: &mut Rng, out: &mut Vec<String>) {
    let thorough = tier == "thorough";
    out.push("comp dna".into());
    out.push("comp rna".into());
    let n_orf = if thorough { 100_000 } else { 4_000 };
    let n_alpha = if thorough { 20_000 } else { 1_000 };
    let n_rc = if thorough { 10_000 } else { 600 };
    let n_gc = if thorough { 5_000 } else { 400 };
    for _ in 0..n_orf {
        out.push(gen_orf(rng));
    }
    for _ in 0..n_alpha {
        out.push(gen_alpha(rng));
    }
    for _ in 0..n_rc {
        out.push(gen_rc(rng));
    }
    for _ in 0..n_gc {
        out.push(gen_gc(rng));
    }
    if thorough {
        // exhaustive small scope: every sequence over {A,T,G} of length ≤ 9, classic codon sets, three minimum lengths
        let starts = fmt_codons(&[*b"ATG"]);
        let stops = fmt_codons(&[*b"TGA", *b"TAG", *b"TAA"]);
        for s in enum_seqs(b"ATG", 9) {
            for ml in [0usize, 3, 4] {
                out.push(format!("orf {} {} {} {}", starts, stops, ml, hex(&s)));
            }
        }
    }
}

pub fn exec(toks: &[&str]) -> Result<String, String> {
    if toks.is_empty() {
        return Err("arity".into());
    }
    match toks[0] {
        "orf" => {
            if toks.len() != 5 {
                return Err("arity".into());
            }
            let starts = codons(toks[1])?;
            let stops = codons(toks[2])?;
            if starts.iter().any(|c| stops.contains(c)) {
                return Err("start and stop codon sets must be disjoint".into());
            }
            let min_len: usize = parse(toks[3])?;
            let seq = unhex(toks[4])?;
            let finder = orf::Finder::new(starts.iter().collect(), stops.iter().collect(), min_len);
            let found: Vec<String> = finder
                .find_all(&seq)
                .map(|orf::Orf { start, end, offset }| format!("{}:{}:{}", start, end, offset))
                .collect();
            Ok(join(&found, ","))
        }
        "rc" => {
            if toks.len() != 3 {
                return Err("arity".into());
            }
            let seq = unhex(toks[2])?;
            let (a, b) = match toks[1] {
                "dna" => {
                    let a = alphabets::dna::revcomp(&seq);
                    let b = alphabets::dna::revcomp(&a);
                    (a, b)
                }
                "rna" => {
                    let a = alphabets::rna::revcomp(&seq);
                    let b = alphabets::rna::revcomp(&a);
                    (a, b)
                }
                _ => return Err("kind".into()),
            };
            Ok(format!("{} {}", hex(&a), hex(&b)))
        }
        "comp" => {
            if toks.len() != 2 {
                return Err("arity".into());
            }
            let t: Vec<u8> = match toks[1] {
                "dna" => (0..=255u8).map(alphabets::dna::complement).collect(),
                "rna" => (0..=255u8).map(alphabets::rna::complement).collect(),
                _ => return Err("kind".into()),
            };
            Ok(hex(&t))
        }
        "alpha" => {
            if toks.len() != 3 {
                return Err("arity".into());
            }
            let syms = unhex(toks[1])?;
            let texts: Vec<Vec<u8>> = split_ne(toks[2], '/').into_iter().map(unhex).collect::<Result<_, _>>()?;
            let a = Alphabet::new(&syms);
            let rt = RankTransform::new(&a);
            let words: Vec<bool> = texts.iter().map(|t| a.is_word(t)).collect();
            let ranks: Vec<u8> = syms.iter().map(|&s| rt.get(s)).collect();
            let tr: Vec<String> = texts
                .iter()
                .zip(&words)
                .map(|(t, &w)| if w { hex(&rt.transform(t)) } else { "nw".to_string() })
                .collect();
            Ok(format!(
                "len:{} max:{} emp:{} w:{} r:{} t:{} ra:{}",
                a.len(),
                a.max_symbol().map(|m| m.to_string()).unwrap_or_else(|| "n".into()),
                a.is_empty() as u8,
                words.iter().map(|&w| if w { '1' } else { '0' }).collect::<String>(),
                hex(&ranks),
                tr.join("/"),
                (rt.alphabet() == a) as u8
            ))
        }
        "gc" => {
            if toks.len() != 2 {
                return Err("arity".into());
            }
            let seq = unhex(toks[1])?;
            if seq.is_empty() {
                return Err("empty sequence is outside the domain of gc_content (0/0)".into());
            }
            Ok(format!("{:e} {:e}", gc::gc_content(&seq), gc::gc3_content(&seq)))
        }
        _ => Err("op".into()),
    }
}
