//! Uniform access to the eight Myers matcher types (`Myers<u8|u16|u32|u64>`, `long::Myers<u8|u16|u32|u64>`)
//! for C09 (end positions / distances) and C10 (traceback, eager and lazy API).
use crate::util::Rng;
use bio::alignment::{Alignment, AlignmentMode, AlignmentOperation};
use bio::pattern_matching::myers::{long, Myers, MyersBuilder};
use std::collections::BTreeMap;

#[derive(Clone, Debug, PartialEq, Eq)]
pub struct Hit {
    pub start: usize,
    /// exclusive
    pub end: usize,
    pub dist: usize,
    pub ops: String,
}

impl Hit {
    pub fn show(&self) -> String {
        format!("{}:{}:{}:{}", self.start, self.end, self.dist, self.ops)
    }
}

pub fn ops_str(ops: &[AlignmentOperation]) -> String {
    if ops.is_empty() {
        return "_".to_string();
    }
    ops.iter()
        .map(|o| match o {
            AlignmentOperation::Match => 'M',
            AlignmentOperation::Subst => 'S',
            AlignmentOperation::Ins => 'I',
            AlignmentOperation::Del => 'D',
            AlignmentOperation::Xclip(_) => 'X',
            AlignmentOperation::Yclip(_) => 'Y',
        })
        .collect()
}

fn aln_ok(a: &Alignment, h: &Hit, m: usize, n: usize) -> bool {
    a.xstart == 0
        && a.xend == m
        && a.xlen == m
        && a.ylen == n
        && a.ystart == h.start
        && a.yend == h.end
        && a.score == h.dist as i32
        && a.mode == AlignmentMode::Semiglobal
        && ops_str(&a.operations) == h.ops
}

pub struct EagerOut {
    pub hits: Vec<Hit>,
    pub stopped: bool,
    pub diffs: Vec<String>,
}

pub struct LazyOut {
    /// (end inclusive, dist) as iterated
    pub ends: Vec<(usize, usize)>,
    /// traceback at every hit end
    pub hits: Vec<Hit>,
    /// traceback at some visited non-hit ends (single-word version only)
    pub extra: Vec<Hit>,
    pub diffs: Vec<String>,
    pub n_queries: usize,
    pub n_unvisited: usize,
}

pub trait MyApi {
    fn fae(&self, text: &[u8], k: usize) -> Result<Vec<(usize, usize)>, String>;
    fn dist(&self, text: &[u8]) -> usize;
    fn best(&self, text: &[u8]) -> (usize, usize);
    /// `script`: per hit which entry point is used (0 next, 1 next_end, 2 next_path, 3 next_path_reverse,
    /// 4 next_alignment, 9 stop iterating and drop the iterator)
    fn eager(&mut self, text: &[u8], k: usize, m: usize, script: &[u8]) -> Result<EagerOut, String>;
    fn lazy(&mut self, text: &[u8], k: usize, m: usize, seed: u64, simple: bool) -> Result<LazyOut, String>;
}

macro_rules! impl_api {
    ($ty:ty, $d:ty) => {
        impl MyApi for $ty {
            fn fae(&self, text: &[u8], k: usize) -> Result<Vec<(usize, usize)>, String> {
                let kk = <$d>::try_from(k).map_err(|_| "k out of range".to_string())?;
                Ok(self.find_all_end(text, kk).map(|(e, d)| (e, d as usize)).collect())
            }
            fn dist(&self, text: &[u8]) -> usize {
                self.distance(text) as usize
            }
            fn best(&self, text: &[u8]) -> (usize, usize) {
                let (e, d) = self.find_best_end(text);
                (e, d as usize)
            }

            fn eager(&mut self, text: &[u8], k: usize, m: usize, script: &[u8]) -> Result<EagerOut, String> {
                use AlignmentOperation::*;
                let kk = <$d>::try_from(k).map_err(|_| "k out of range".to_string())?;
                let n = text.len();
                let mut diffs: Vec<String> = vec![];
                let mut hits = vec![];
                let mut stopped = false;
                let mut it = self.find_all(text, kk);
                // vectors handed to the eager API are documented to be cleared: pass used ones
                let mut ops: Vec<AlignmentOperation> = vec![Xclip(7), Del];
                let mut aln = Alignment::default();
                aln.operations.push(Yclip(3));
                let mut i = 0usize;
                loop {
                    let mode = if script.is_empty() { 0 } else { script[i % script.len()] };
                    i += 1;
                    let got: Option<Hit> = match mode {
                        9 => {
                            stopped = true;
                            break;
                        }
                        1 => match it.next_end() {
                            Some((e, d)) => {
                                let s = it.start().unwrap_or(usize::MAX);
                                let s2 = it.path(&mut ops).unwrap_or(usize::MAX);
                                if s != s2 {
                                    diffs.push("start-vs-path".into());
                                }
                                Some(Hit { start: s, end: e + 1, dist: d as usize, ops: ops_str(&ops) })
                            }
                            None => None,
                        },
                        2 => it
                            .next_path(&mut ops)
                            .map(|(s, e, d)| Hit { start: s, end: e, dist: d as usize, ops: ops_str(&ops) }),
                        3 => it.next_path_reverse(&mut ops).map(|(s, e, d)| {
                            let mut o = ops.clone();
                            o.reverse();
                            Hit { start: s, end: e, dist: d as usize, ops: ops_str(&o) }
                        }),
                        4 => {
                            if it.next_alignment(&mut aln) {
                                let h = Hit {
                                    start: aln.ystart,
                                    end: aln.yend,
                                    dist: aln.score as usize,
                                    ops: ops_str(&aln.operations),
                                };
                                if !aln_ok(&aln, &h, m, n) {
                                    diffs.push("next_alignment-fields".into());
                                }
                                Some(h)
                            } else {
                                None
                            }
                        }
                        _ => match it.next() {
                            Some((s, e, d)) => {
                                let s2 = it.path(&mut ops).unwrap_or(usize::MAX);
                                if s != s2 {
                                    diffs.push("next-vs-path".into());
                                }
                                Some(Hit { start: s, end: e, dist: d as usize, ops: ops_str(&ops) })
                            }
                            None => None,
                        },
                    };
                    let h = match got {
                        None => break,
                        Some(h) => h,
                    };
                    // every accessor of the current hit must agree with the entry point used
                    if it.start() != Some(h.start) {
                        diffs.push("start".into());
                    }
                    let mut o2 = vec![Match, Match, Ins];
                    if it.path(&mut o2) != Some(h.start) || ops_str(&o2) != h.ops {
                        diffs.push("path".into());
                    }
                    let mut o3 = vec![Subst];
                    let r3 = it.path_reverse(&mut o3);
                    o3.reverse();
                    if r3 != Some(h.start) || ops_str(&o3) != h.ops {
                        diffs.push("path_reverse".into());
                    }
                    let mut a2 = Alignment::default();
                    a2.operations.push(Del);
                    if !it.alignment(&mut a2) || !aln_ok(&a2, &h, m, n) {
                        diffs.push("alignment".into());
                    }
                    hits.push(h);
                }
                if !stopped {
                    // search finished without a further hit: everything must answer None/false, again and again
                    for _ in 0..2 {
                        if it.start().is_some()
                            || it.path(&mut ops).is_some()
                            || it.path_reverse(&mut ops).is_some()
                            || it.alignment(&mut aln)
                            || it.next().is_some()
                            || it.next_end().is_some()
                            || it.next_path(&mut ops).is_some()
                            || it.next_alignment(&mut aln)
                        {
                            diffs.push("after-end".into());
                        }
                    }
                }
                Ok(EagerOut { hits, stopped, diffs })
            }

            fn lazy(&mut self, text: &[u8], k: usize, m: usize, seed: u64, simple: bool) -> Result<LazyOut, String> {
                let kk = <$d>::try_from(k).map_err(|_| "k out of range".to_string())?;
                let n = text.len();
                let mut rng = Rng::new(seed);
                let mut diffs: Vec<String> = vec![];
                let mut ends: Vec<(usize, usize)> = vec![];
                let mut rec: BTreeMap<usize, Hit> = BTreeMap::new();
                let mut n_queries = 0usize;
                let mut n_unvisited = 0usize;
                let mut it = self.find_all_lazy(text, kk);
                let mut aln = Alignment::default();
                loop {
                    let nx = it.next();
                    let finished = nx.is_none();
                    let visited = match nx {
                        Some((e, d)) => {
                            ends.push((e, d as usize));
                            e + 1
                        }
                        None => n,
                    };
                    if finished || rng.chance(1, 2) {
                        let nq = 1 + rng.below(6);
                        for _ in 0..nq {
                            let e = if !ends.is_empty() && (!simple || rng.chance(2, 3)) {
                                ends[rng.below(ends.len())].0
                            } else if simple && visited > 0 {
                                rng.below(visited)
                            } else {
                                continue;
                            };
                            n_queries += 1;
                            // canonical record (first answer of path_at for this end)
                            if !rec.contains_key(&e) {
                                let mut o = vec![];
                                match it.path_at(e, &mut o) {
                                    Some((s, d)) => {
                                        rec.insert(e, Hit { start: s, end: e + 1, dist: d as usize, ops: ops_str(&o) });
                                    }
                                    None => {
                                        diffs.push("visited-end-refused".into());
                                        continue;
                                    }
                                }
                            }
                            let h = rec.get(&e).unwrap().clone();
                            match rng.below(4) {
                                0 => {
                                    if it.hit_at(e).map(|(s, d)| (s, d as usize)) != Some((h.start, h.dist)) {
                                        diffs.push("hit_at".into());
                                    }
                                }
                                1 => {
                                    let mut o = vec![];
                                    let r = it.path_at(e, &mut o).map(|(s, d)| (s, d as usize));
                                    if r != Some((h.start, h.dist)) || ops_str(&o) != h.ops {
                                        diffs.push("path_at-repeat".into());
                                    }
                                }
                                2 => {
                                    let mut o = vec![];
                                    let r = it.path_at_reverse(e, &mut o).map(|(s, d)| (s, d as usize));
                                    o.reverse();
                                    if r != Some((h.start, h.dist)) || ops_str(&o) != h.ops {
                                        diffs.push("path_at_reverse".into());
                                    }
                                }
                                _ => {
                                    if !it.alignment_at(e, &mut aln) || !aln_ok(&aln, &h, m, n) {
                                        diffs.push("alignment_at".into());
                                    }
                                }
                            }
                        }
                        // positions not searched yet must be refused
                        let cands = [visited, visited + 1, visited + rng.below(4), n, n + 1, n + 2 + rng.below(4)];
                        for &e in cands.iter() {
                            if e < visited {
                                continue;
                            }
                            n_unvisited += 1;
                            let mut o = vec![];
                            if it.hit_at(e).is_some() || it.path_at(e, &mut o).is_some() || it.alignment_at(e, &mut aln) {
                                diffs.push("unvisited-end-answered".into());
                            }
                        }
                    }
                    if finished {
                        break;
                    }
                }
                // make sure every hit end has been traced at least once
                for &(e, d) in &ends {
                    if !rec.contains_key(&e) {
                        let mut o = vec![];
                        match it.path_at(e, &mut o) {
                            Some((s, dd)) => {
                                rec.insert(e, Hit { start: s, end: e + 1, dist: dd as usize, ops: ops_str(&o) });
                            }
                            None => diffs.push("visited-end-refused".into()),
                        }
                    }
                    if let Some(h) = rec.get(&e) {
                        if h.dist != d {
                            diffs.push("lazy-dist-vs-iterated".into());
                        }
                    }
                }
                let hit_ends: std::collections::BTreeSet<usize> = ends.iter().map(|x| x.0).collect();
                let hits: Vec<Hit> = rec.iter().filter(|(e, _)| hit_ends.contains(e)).map(|(_, h)| h.clone()).collect();
                let extra: Vec<Hit> =
                    rec.iter().filter(|(e, _)| !hit_ends.contains(e)).map(|(_, h)| h.clone()).take(6).collect();
                Ok(LazyOut { ends, hits, extra, diffs, n_queries, n_unvisited })
            }
        }
    };
}

impl_api!(Myers<u8>, u8);
impl_api!(Myers<u16>, u8);
impl_api!(Myers<u32>, u8);
impl_api!(Myers<u64>, u8);
impl_api!(long::Myers<u8>, usize);
impl_api!(long::Myers<u16>, usize);
impl_api!(long::Myers<u32>, usize);
impl_api!(long::Myers<u64>, usize);

/// ambiguity table as written on the line: `-` or `;`-separated `<pattern symbol hex>:<equivalent text symbols hex>`
pub fn parse_amb(s: &str) -> Result<Vec<(u8, Vec<u8>)>, String> {
    let mut out: Vec<(u8, Vec<u8>)> = vec![];
    if s == "-" {
        return Ok(out);
    }
    for item in s.split(';') {
        let (a, b) = item.split_once(':').ok_or("amb item")?;
        let a = crate::util::unhex(a)?;
        if a.len() != 1 {
            return Err("amb key".into());
        }
        if out.iter().any(|x| x.0 == a[0]) {
            return Err("duplicate amb key".into());
        }
        out.push((a[0], crate::util::unhex(b)?));
    }
    Ok(out)
}

/// build one of the eight matcher types; `mode` = "new" (plain constructor, tables must be empty) | "bld" (builder)
pub fn build(
    simple: bool,
    w: usize,
    mode: &str,
    pat: &[u8],
    amb: &[(u8, Vec<u8>)],
    wild: &[u8],
) -> Result<Box<dyn MyApi>, String> {
    let mut b = MyersBuilder::new();
    for (a, eq) in amb {
        b.ambig(*a, eq);
    }
    for &x in wild {
        b.text_wildcard(x);
    }
    let plain = match mode {
        "new" => {
            if !amb.is_empty() || !wild.is_empty() {
                return Err("new with tables".into());
            }
            true
        }
        "bld" => false,
        _ => return Err("mode".into()),
    };
    Ok(match (simple, w, plain) {
        (true, 8, true) => Box::new(Myers::<u8>::new(pat)),
        (true, 16, true) => Box::new(Myers::<u16>::new(pat)),
        (true, 32, true) => Box::new(Myers::<u32>::new(pat)),
        (true, 64, true) => Box::new(Myers::<u64>::new(pat)),
        (false, 8, true) => Box::new(long::Myers::<u8>::new(pat)),
        (false, 16, true) => Box::new(long::Myers::<u16>::new(pat)),
        (false, 32, true) => Box::new(long::Myers::<u32>::new(pat)),
        (false, 64, true) => Box::new(long::Myers::<u64>::new(pat)),
        (true, 8, false) => Box::new(b.build::<u8, _, _>(pat)),
        (true, 16, false) => Box::new(b.build::<u16, _, _>(pat)),
        (true, 32, false) => Box::new(b.build::<u32, _, _>(pat)),
        (true, 64, false) => Box::new(b.build_64(pat)),
        (false, 8, false) => Box::new(b.build_long::<u8, _, _>(pat)),
        (false, 16, false) => Box::new(b.build_long::<u16, _, _>(pat)),
        (false, 32, false) => Box::new(b.build_long::<u32, _, _>(pat)),
        (false, 64, false) => Box::new(b.build_long_64(pat)),
        _ => return Err("word size".into()),
    })
}

// ------------------------------------------------------------------------------------------ shared generators

pub fn word_sizes() -> [usize; 4] {
    [8, 16, 32, 64]
}

/// pattern lengths aimed at the word/block boundaries of word size `w`
pub fn pat_len(rng: &mut Rng, w: usize, simple: bool) -> usize {
    match rng.below(10) {
        0..=3 => 1 + rng.below(20),
        4 | 5 => {
            if simple {
                *rng.pick(&[w - 1, w, w, w])
            } else {
                *rng.pick(&[w - 1, w, w + 1, 2 * w, 2 * w + 1, 2 * w - 1, 3 * w])
            }
        }
        6 => {
            if simple {
                1 + rng.below(w)
            } else {
                1 + rng.below(3 * w + 2).min(130)
            }
        }
        7 => 1 + rng.below(3),
        _ => {
            if simple {
                (1 + rng.below(20)).min(w)
            } else {
                // u8 blocks: 17 symbols are three blocks
                w + 1 + rng.below(w + 2)
            }
        }
    }
}

pub fn alphabet(rng: &mut Rng) -> Vec<u8> {
    match rng.below(9) {
        0 => vec![b'a'],
        1 | 2 => vec![b'a', b'b'],
        3 => vec![b'a', b'c', b'g', b't'],
        4 => vec![0, 255, b'a', b'n'],
        5 => vec![b'a', b'b', b'c'],
        // large alphabets: unrelated text is far from the pattern, so that the block-based version switches
        // blocks off and on again (band) and the traceback runs along the edge of the computed region
        6 | 7 => (b'a'..=b'p').collect(),
        _ => (0..=255).collect(),
    }
}

/// a copy of `p` with exactly `e` edits (substitution by a different symbol / deletion / insertion), all at
/// positions below `window`
pub fn plant(rng: &mut Rng, p: &[u8], alpha: &[u8], e: usize, window: usize) -> Vec<u8> {
    let mut c = p.to_vec();
    for _ in 0..e {
        if c.is_empty() {
            break;
        }
        let pos = rng.below(window.max(1).min(c.len()));
        match rng.below(3) {
            0 => {
                let mut x = *rng.pick(alpha);
                if x == c[pos] {
                    x = alpha[(alpha.iter().position(|&y| y == x).unwrap() + 1) % alpha.len()];
                }
                c[pos] = x;
            }
            1 => {
                c.remove(pos);
            }
            _ => c.insert(pos, *rng.pick(alpha)),
        }
    }
    c
}

pub fn pattern(rng: &mut Rng, alpha: &[u8], len: usize) -> Vec<u8> {
    match rng.below(4) {
        0 => {
            let per = 1 + rng.below(3.min(len));
            let w = rng.seq(alpha, per);
            (0..len).map(|i| w[i % per]).collect()
        }
        1 => {
            let per = 1 + rng.below(3.min(len));
            let w = rng.seq(alpha, per);
            let mut p: Vec<u8> = (0..len).map(|i| w[i % per]).collect();
            let i = rng.below(len);
            p[i] = *rng.pick(alpha);
            p
        }
        _ => rng.seq(alpha, len),
    }
}

/// text aimed at a pattern: noisy copies of the pattern (so that the distance moves around k) separated by
/// noise, hits at the very start, texts shorter than the pattern, up to ~3(m+k) symbols
pub fn text(rng: &mut Rng, alpha: &[u8], p: &[u8], k: usize) -> Vec<u8> {
    let m = p.len();
    let cap = 3 * (m + k.min(m + 4)) + 4;
    let mut t: Vec<u8> = match rng.below(10) {
        0 => vec![],
        1 => p[..rng.below(m)].to_vec(),
        2 => p[rng.below(m)..].to_vec(),
        3 => {
            let l = rng.below(cap.min(60));
            rng.seq(alpha, l)
        }
        _ => {
            let mut t = vec![];
            // with probability 1/2 the text starts with a (mutated) copy: hit at the very start
            if rng.chance(1, 2) {
                let n0 = rng.below(4);
                t.extend(rng.seq(alpha, n0));
            }
            let copies = 1 + rng.below(3);
            for _ in 0..copies {
                let rate = *rng.pick(&[0usize, 3, 8, 15, 30]);
                let mut c = if rng.chance(1, 2) {
                    rng.mutate(p, alpha, rate)
                } else {
                    // exactly k-1 / k / k+1 errors, optionally all of them in the first block(s)
                    let e = (k.min(6) + rng.below(3)).saturating_sub(1);
                    let window = *rng.pick(&[8usize, 8, 16, m, m]);
                    plant(rng, p, alpha, e, window)
                };
                if rng.chance(1, 6) && !c.is_empty() {
                    // truncated copy
                    let cut = rng.below(c.len());
                    if rng.chance(1, 2) {
                        c.truncate(cut);
                    } else {
                        c = c[cut..].to_vec();
                    }
                }
                t.extend(c);
                let gap = *rng.pick(&[0usize, 0, 1, 2, 5, m / 2, m + 1, 2 * m]);
                t.extend(rng.seq(alpha, gap));
            }
            t
        }
    };
    t.truncate(cap.max(8));
    t
}

/// "band" scenario for the block-based version: copies of the pattern with at most k errors, all of them inside the
/// first block, back to back or separated by a few symbols, so that lower blocks are switched on exactly when
/// an alignment with distance k crosses a block boundary
pub fn band_text(rng: &mut Rng, alpha: &[u8], p: &[u8], k: usize, w: usize) -> Vec<u8> {
    let mut t = vec![];
    if rng.chance(1, 3) {
        let n0 = rng.below(2 * w);
        t.extend(rng.seq(alpha, n0));
    }
    let copies = 1 + rng.below(4);
    for _ in 0..copies {
        let e = if rng.chance(3, 4) { k.min(5) } else { rng.below(k.min(5) + 2) };
        let window = *rng.pick(&[w, w, w - 1, 2 * w]);
        t.extend(plant(rng, p, alpha, e, window));
        let gap = *rng.pick(&[0usize, 0, 1, 2, 3, w]);
        t.extend(rng.seq(alpha, gap));
    }
    t.truncate(6 * p.len() + 16);
    t
}

/// thresholds from 0 to beyond |p|
pub fn threshold(rng: &mut Rng, m: usize, simple: bool) -> usize {
    let k = match rng.below(12) {
        0 => 0,
        1 | 2 => 1 + rng.below(3),
        3 | 4 => rng.below(m + 1),
        5 => m,
        6 => m + 1 + rng.below(4),
        7 => m.saturating_sub(1),
        8 => (m / 4).max(1),
        9 => {
            if simple {
                255
            } else {
                *rng.pick(&[255usize, 1000, 1 << 40, usize::MAX - 64, usize::MAX - 1, usize::MAX])
            }
        }
        _ => rng.below(m / 2 + 2),
    };
    if simple {
        k.min(255)
    } else {
        k
    }
}

/// random ambiguity map (keys from the pattern's symbols, values from the alphabet plus a foreign symbol) and
/// text wildcards
pub fn tables(rng: &mut Rng, alpha: &[u8], p: &[u8]) -> (Vec<(u8, Vec<u8>)>, Vec<u8>) {
    let mut amb: Vec<(u8, Vec<u8>)> = vec![];
    let na = rng.below(3);
    for _ in 0..na {
        let key = if rng.chance(4, 5) { *rng.pick(p) } else { b'N' };
        if amb.iter().any(|x| x.0 == key) {
            continue;
        }
        let mut pool = alpha.to_vec();
        pool.push(b'*');
        let ne = rng.below(3);
        amb.push((key, rng.seq(&pool, ne)));
    }
    let mut wild = vec![];
    if rng.chance(1, 2) {
        let mut pool = alpha.to_vec();
        pool.push(b'*');
        wild.push(*rng.pick(&pool));
    }
    (amb, wild)
}

pub fn show_amb(amb: &[(u8, Vec<u8>)]) -> String {
    if amb.is_empty() {
        return "-".into();
    }
    amb.iter()
        .map(|(a, e)| format!("{}:{}", crate::util::hex(&[*a]), crate::util::hex(e)))
        .collect::<Vec<_>>()
        .join(";")
}
