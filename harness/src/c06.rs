//! C06 — FMD-index: `smems`, `all_smems`, `forward_ext` / `backward_ext`, `init_interval_with`.
//!
//! text T = s1 $ revcomp(s1) $ s2 $ revcomp(s2) $ …   (built with `bio::alphabets::dna::revcomp`, as in the repo's tests)
//!
//! `c06 smems <s1>/<s2>/… k:<occ rate> l:<min length ≥ 1> <pattern>`
//!     => `<suffix array> <smems(p,0,l)>/<smems(p,1,l)>/…/<smems(p,|p|-1,l)> <all_smems(p,l)>`
//!     each result list: `;`-joined `b:len:flo:fhi:rlo:rhi` (`-` when empty) — pattern position, match length,
//!     `forward()` interval, `revcomp()` interval
//! `c06 ext <s1>/<s2>/… k:<occ rate> <chain>/<chain>/…`      chain = `<e|w>:<string w>:<j>:<dirs>`
//!     a chain builds the bi-interval of `w` symbol by symbol, starting at w[j]:
//!     `w` = start with `init_interval_with(w[j])`, then one `f` (forward_ext with the next symbol on the right)
//!     or `b` (backward_ext with the next symbol on the left) per letter of `dirs` (|w|-1-j f's and j b's);
//!     `e` = start with `init_interval()` (empty string) — `dirs` then has one more leading letter, which adds w[j].
//!     The chain stops after the first empty bi-interval.
//!     => `<suffix array> <chain>/<chain>/…`, chain = `;`-joined `flo:fhi:rlo:rhi`, one per string built
//!     (w[j..j+1], then each extension).
use crate::util::*;
use bio::alphabets::dna;
use bio::data_structures::bwt::{bwt, less, Occ};
use bio::data_structures::fmindex::{BiInterval, FMDIndex, FMIndex};
use bio::data_structures::suffix_array::suffix_array;

const DNA: &[u8] = b"ACGTNacgtn";

pub fn fmd_text(seqs: &[Vec<u8>]) -> Vec<u8> {
    let mut t = Vec::new();
    for s in seqs {
        t.extend_from_slice(s);
        t.push(b'$');
        t.extend(dna::revcomp(s));
        t.push(b'$');
    }
    t
}

fn bi(iv: &BiInterval) -> String {
    let (f, r) = (iv.forward(), iv.revcomp());
    format!("{}:{}:{}:{}", f.lower, f.upper, r.lower, r.upper)
}

fn is_empty(iv: &BiInterval) -> bool {
    let f = iv.forward();
    f.upper == f.lower
}

fn smem_list(v: &[(BiInterval, usize, usize)]) -> String {
    if v.is_empty() {
        return "-".into();
    }
    v.iter().map(|(iv, b, l)| format!("{}:{}:{}", b, l, bi(iv))).collect::<Vec<_>>().join(";")
}

fn parse_seqs(tok: &str) -> Result<Vec<Vec<u8>>, String> {
    let seqs: Vec<Vec<u8>> = split_ne(tok, '/').into_iter().map(unhex).collect::<Result<_, _>>()?;
    if seqs.iter().flatten().any(|c| !DNA.contains(c)) {
        return Err("sequence symbol outside ACGTNacgtn".into());
    }
    Ok(seqs)
}

pub fn exec(toks: &[&str]) -> Result<String, String> {
    if toks.len() < 3 {
        return Err("arity".into());
    }
    let seqs = parse_seqs(toks[1])?;
    let k: u32 = parse(kv(toks[2], "k")?)?;
    if k == 0 {
        return Err("rate must be positive".into());
    }
    let text = fmd_text(&seqs);
    let alphabet = dna::n_alphabet();
    let sa = suffix_array(&text);
    let bw = bwt(&text, &sa);
    let le = less(&bw, &alphabet);
    let oc = Occ::new(&bw, k, &alphabet);
    match toks[0] {
        "smems" => {
            if toks.len() != 5 {
                return Err("arity".into());
            }
            let l: usize = parse(kv(toks[3], "l")?)?;
            let p = unhex(toks[4])?;
            if l == 0 || p.is_empty() || p.iter().any(|c| !DNA.contains(c)) {
                return Err("l >= 1 and a non-empty pattern over ACGTNacgtn required".into());
            }
            let fmd = FMDIndex::from(FMIndex::new(&bw, &le, &oc));
            let per_i: Vec<String> = (0..p.len()).map(|i| smem_list(&fmd.smems(&p, i, l))).collect();
            let all = smem_list(&fmd.all_smems(&p, l));
            Ok(format!("{} {} {}", join(&sa, ","), per_i.join("/"), all))
        }
        "ext" => {
            if toks.len() != 4 {
                return Err("arity".into());
            }
            // owned components here (the other op borrows)
            let fmd = FMDIndex::from(FMIndex::new(bw.clone(), le.clone(), oc.clone()));
            let mut outs = vec![];
            for ch in split_ne(toks[3], '/') {
                let f: Vec<&str> = ch.split(':').collect();
                if f.len() != 4 {
                    return Err("chain".into());
                }
                let w = unhex(f[1])?;
                let j: usize = parse(f[2])?;
                let dirs = if f[3] == "-" { "" } else { f[3] };
                if w.is_empty() || j >= w.len() || w.iter().any(|c| !DNA.contains(c)) {
                    return Err("chain string".into());
                }
                let mut d = dirs.bytes();
                let mut iv = match f[0] {
                    "w" => fmd.init_interval_with(w[j]),
                    "e" => match d.next() {
                        Some(b'f') => fmd.forward_ext(&fmd.init_interval(), w[j]),
                        Some(b'b') => fmd.backward_ext(&fmd.init_interval(), w[j]),
                        _ => return Err("chain dirs".into()),
                    },
                    _ => return Err("chain mode".into()),
                };
                let rest: Vec<u8> = d.collect();
                if rest.iter().filter(|&&c| c == b'f').count() != w.len() - 1 - j
                    || rest.iter().filter(|&&c| c == b'b').count() != j
                {
                    return Err("chain dirs do not cover the string".into());
                }
                let (mut lo, mut hi) = (j, j + 1);
                let mut steps = vec![bi(&iv)];
                for c in rest {
                    if is_empty(&iv) {
                        break;
                    }
                    if c == b'f' {
                        iv = fmd.forward_ext(&iv, w[hi]);
                        hi += 1;
                    } else {
                        lo -= 1;
                        iv = fmd.backward_ext(&iv, w[lo]);
                    }
                    steps.push(bi(&iv));
                }
                outs.push(steps.join(";"));
            }
            Ok(format!("{} {}", join(&sa, ","), outs.join("/")))
        }
        _ => Err("op".into()),
    }
}

// ------------------------------------------------------------------------------------------------ generator

fn alphabet(rng: &mut Rng) -> &'static [u8] {
    match rng.below(12) {
        0 | 1 => b"ACGT",
        2 => b"ACGTN",
        3 => b"ACGTNacgtn",
        4 => b"AC",
        5 => b"AT", // closed under complement: many reverse-complement palindromes
        6 => b"Aa",
        7 => b"ACGTacgt",
        8 => b"CGN",
        9 => b"AGn",
        10 => b"N",
        _ => b"ACgtN",
    }
}

fn sequences(rng: &mut Rng, alpha: &[u8], long: bool) -> Vec<Vec<u8>> {
    let n = 1 + rng.below(3);
    (0..n)
        .map(|_| {
            let len = if long { 30 + rng.below(70) } else { rng.below(26) };
            match rng.below(6) {
                0 => {
                    let per = 1 + rng.below(3);
                    let w = rng.seq(alpha, per);
                    (0..len).map(|i| w[i % per]).collect()
                }
                1 => {
                    // reverse-complement palindrome
                    let h = rng.seq(alpha, len / 2);
                    let mut s = h.clone();
                    s.extend(dna::revcomp(&h));
                    s
                }
                _ => rng.seq(alpha, len),
            }
        })
        .collect()
}

/// a piece of a sequence or of a reverse complement
fn piece(rng: &mut Rng, seqs: &[Vec<u8>], alpha: &[u8], maxlen: usize) -> Vec<u8> {
    let ne: Vec<&Vec<u8>> = seqs.iter().filter(|s| !s.is_empty()).collect();
    if ne.is_empty() {
        let l = 1 + rng.below(3);
        return rng.seq(alpha, l);
    }
    let s0 = *rng.pick(&ne);
    let s = if rng.chance(1, 2) { s0.clone() } else { dna::revcomp(s0) };
    let i = rng.below(s.len());
    let l = 1 + rng.below((s.len() - i).min(maxlen));
    s[i..i + l].to_vec()
}

fn pattern(rng: &mut Rng, seqs: &[Vec<u8>], alpha: &[u8]) -> Vec<u8> {
    let mut p = vec![];
    let parts = 1 + rng.below(3);
    let clean = rng.chance(2, 5);
    for _ in 0..parts {
        let maxlen = if rng.chance(1, 3) { 25 } else { 8 };
        p.extend(piece(rng, seqs, alpha, maxlen));
        if !clean && rng.chance(1, 4) {
            // a foreign symbol between the pieces
            p.push(*rng.pick(DNA));
        }
    }
    // point changes: within the text alphabet, to N / n, or to the other case
    let changes = if clean { 0 } else { rng.below(3) };
    for _ in 0..changes {
        let i = rng.below(p.len());
        p[i] = match rng.below(4) {
            0 => b'N',
            1 => p[i] ^ 0x20,
            2 => *rng.pick(DNA),
            _ => *rng.pick(alpha),
        };
    }
    p.truncate(30);
    p
}

const RATES: [u32; 9] = [1, 2, 3, 8, 64, 65, 100, 128, 1000];

fn chain(rng: &mut Rng, seqs: &[Vec<u8>], alpha: &[u8]) -> String {
    let mut w = piece(rng, seqs, alpha, 12);
    if w.len() < 3 && rng.chance(2, 3) {
        w.extend(piece(rng, seqs, alpha, 6));
    }
    if rng.chance(1, 3) {
        let i = rng.below(w.len());
        let any = rng.chance(1, 2);
        w[i] = *rng.pick(if any { DNA } else { alpha });
    }
    if rng.chance(1, 5) {
        w.push(*rng.pick(DNA));
    }
    if rng.chance(1, 5) {
        w.insert(0, *rng.pick(DNA));
    }
    let j = rng.below(w.len());
    let (mut nf, mut nb) = (w.len() - 1 - j, j);
    let mut dirs = String::new();
    let mode = if rng.chance(1, 4) { "e" } else { "w" };
    if mode == "e" {
        dirs.push(if rng.chance(1, 2) { 'f' } else { 'b' });
    }
    while nf + nb > 0 {
        if nb == 0 || (nf > 0 && rng.chance(1, 2)) {
            dirs.push('f');
            nf -= 1;
        } else {
            dirs.push('b');
            nb -= 1;
        }
    }
    format!("{}:{}:{}:{}", mode, hex(&w), j, if dirs.is_empty() { "-".to_string() } else { dirs })
}

fn enum_seqs(alpha: &[u8], maxlen: usize, minlen: usize) -> Vec<Vec<u8>> {
    let mut out = vec![];
    let mut cur: Vec<Vec<u8>> = vec![vec![]];
    for l in 0..=maxlen {
        if l >= minlen {
            out.extend(cur.iter().cloned());
        }
        let mut nxt = vec![];
        for s in &cur {
            for &a in alpha {
                let mut t = s.clone();
                t.push(a);
                nxt.push(t);
            }
        }
        cur = nxt;
    }
    out
}

pub fn gen(tier: &str, rng: &mut Rng, out: &mut Vec<String>) {
    let thorough = tier == "thorough";
    let (nidx, npat) = if thorough { (5_000, 20) } else { (2_400, 10) };
    for i in 0..nidx {
        let alpha = alphabet(rng);
        let seqs = sequences(rng, alpha, i % 6 == 5);
        let sq = seqs.iter().map(|s| hex(s)).collect::<Vec<_>>().join("/");
        let tlen = fmd_text(&seqs).len() as u32;
        for _ in 0..npat {
            let k = if rng.chance(1, 10) { 2 * tlen } else { *rng.pick(&RATES) };
            let l = *rng.pick(&[1usize, 1, 2, 3, 5]);
            let p = pattern(rng, &seqs, alpha);
            out.push(format!("smems {} k:{} l:{} {}", sq, k, l, hex(&p)));
        }
        for _ in 0..(npat / 5).max(1) {
            let k = *rng.pick(&RATES);
            let chains: Vec<String> = (0..6).map(|_| chain(rng, &seqs, alpha)).collect();
            out.push(format!("ext {} k:{} {}", sq, k, chains.join("/")));
        }
    }
    if thorough {
        // exhaustive small scope: every single sequence over {A,C,G,T} of length <= 3 (and every pair of sequences
        // over {A,T} of length <= 2) x every pattern over {A,C,G,T} of length 1..=4, l in {1,2}
        let pats = enum_seqs(b"ACGT", 4, 1);
        let mut idx: Vec<String> = enum_seqs(b"ACGT", 3, 0).iter().map(|s| hex(s)).collect();
        let small = enum_seqs(b"AT", 2, 0);
        for a in &small {
            for b in &small {
                idx.push(format!("{}/{}", hex(a), hex(b)));
            }
        }
        for (j, sq) in idx.iter().enumerate() {
            for p in &pats {
                out.push(format!("smems {} k:{} l:{} {}", sq, RATES[j % 4], 1 + (p.len() + j) % 2, hex(p)));
            }
        }
    }
}
