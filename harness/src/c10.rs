//! C10 — Myers traceback and API agreement.
//!
//! `<ws> <wl> <new|bld> <pattern> <amb> <wild> <search>/<search>/…`
//!     ws = word size of the single-word matcher (0: none), wl = word size of the block-based matcher (0: none);
//!     both given: every search runs on both and the alignments must be identical.
//!     One matcher object of each kind serves all searches of the line (history).
//!     search = `E:<k>:<script digits>:<text>`  eager API (`find_all`); script: entry point used per hit
//!                   (0 next, 1 next_end, 2 next_path, 3 next_path_reverse, 4 next_alignment, 9 drop the iterator)
//!            | `L:<k>:<seed>:<text>`           lazy API (`find_all_lazy`), `*_at` queries interleaved at random
//! observation per search:
//!     `H=<start:end:dist:ops,…>;X=<…>;stop=<0|1>;q=<queries>;u=<unvisited probes>;api:same|api:differs:<what+…>`
//!     H: one traceback per reported hit (end exclusive), X: tracebacks at visited ends that are not hits
//!     (single-word version only).  Harness-side agreement (impl against impl): every accessor of the eager API,
//!     every `*_at` repetition, `Alignment` fields, both against `find_all_end`, block-based against single-word,
//!     `*_at` at a position not yet searched → `None`.
use crate::c09::mu;
use crate::util::*;

fn show_hits(h: &[mu::Hit]) -> String {
    if h.is_empty() {
        "-".into()
    } else {
        h.iter().map(|x| x.show()).collect::<Vec<_>>().join(",")
    }
}

fn gen_case(rng: &mut Rng, out: &mut Vec<String>, i: usize) {
    let w = mu::word_sizes()[i % 4];
    // 0: single only, 1: block only, 2: both (same word), 3: both (single u64 when it fits)
    let kind = match (i / 4) % 8 {
        0 => 0,
        1..=4 => 1,
        5 | 6 => 2,
        _ => 3,
    };
    let alpha = mu::alphabet(rng);
    let simple_involved = kind != 1;
    let mut m = mu::pat_len(rng, w, simple_involved);
    if !simple_involved && m > 70 && rng.chance(1, 2) {
        m = w + 1 + rng.below(w.min(20) + 1);
    }
    let (ws, wl) = match kind {
        0 => (w, 0),
        1 => (0, w),
        2 => (w, w),
        _ => (64, w),
    };
    let m = if ws != 0 { m.min(ws) } else { m };
    let p = mu::pattern(rng, &alpha, m);
    let (amb, wild, mode) = match rng.below(4) {
        0 => (vec![], vec![], "bld"),
        1 => {
            let (a, w) = mu::tables(rng, &alpha, &p);
            (a, w, "bld")
        }
        _ => (vec![], vec![], "new"),
    };
    let mut extra: Vec<u8> = wild.clone();
    for (_, e) in &amb {
        extra.extend(e);
    }
    let ns = 1 + rng.below(4);
    let mut ss = vec![];
    for _ in 0..ns {
        let mut k = mu::threshold(rng, m, true).min(m + 5);
        if rng.chance(1, 10) {
            k = 255;
        }
        // several blocks and a small k: only part of the blocks of a column is computed (band), the traceback
        // runs along the edge of the computed region
        if !simple_involved && m > w && rng.chance(2, 3) {
            k = rng.below((m - w).clamp(1, 12) + 1);
        }
        let band = !simple_involved && m > w && rng.chance(1, 2);
        if band {
            k = rng.below(4);
        }
        let mut t = if band { mu::band_text(rng, &alpha, &p, k, w) } else { mu::text(rng, &alpha, &p, k) };
        if !extra.is_empty() {
            for x in t.iter_mut() {
                if rng.chance(1, 12) {
                    *x = *rng.pick(&extra);
                }
            }
        }
        // keep the printed tracebacks small when (nearly) every position is a hit
        if 2 * k >= m {
            t.truncate((3000 / m).max(8));
        }
        if rng.chance(1, 2) {
            let n = 1 + rng.below(6);
            let mut script: String = (0..n).map(|_| char::from(b'0' + rng.below(5) as u8)).collect();
            if rng.chance(1, 8) {
                script.push('9');
            }
            ss.push(format!("E:{}:{}:{}", k, script, hex(&t)));
        } else {
            ss.push(format!("L:{}:{}:{}", k, rng.below(1 << 30), hex(&t)));
        }
    }
    out.push(format!("{} {} {} {} {} {} {}", ws, wl, mode, hex(&p), mu::show_amb(&amb), hex(&wild), ss.join("/")));
}

fn enum_seqs(alpha: &[u8], maxlen: usize, minlen: usize) -> Vec<Vec<u8>> {
    let mut out = vec![];
    let mut cur: Vec<Vec<u8>> = vec![vec![]];
    for l in 0..=maxlen {
        if l >= minlen {
            out.extend(cur.iter().cloned());
        }
        let mut nxt = vec![];
        for s in &cur {
            for &a in alpha {
                let mut t = s.clone();
                t.push(a);
                nxt.push(t);
            }
        }
        cur = nxt;
    }
    out
}

pub fn gen(tier: &str, rng: &mut Rng, out: &mut Vec<String>) {
    let n = if tier == "thorough" { 200_000 } else { 5_000 };
    for i in 0..n {
        gen_case(rng, out, i);
    }
    if tier == "thorough" {
        // exhaustive small scope: all p (1..=4), t (0..=7) over {a,b}, k 0..=4; u8 single + u8 blocks
        let ps = enum_seqs(b"ab", 4, 1);
        let ts = enum_seqs(b"ab", 7, 0);
        for p in &ps {
            for k in 0..=4usize {
                for (ci, chunk) in ts.chunks(16).enumerate() {
                    let ss: Vec<String> = chunk
                        .iter()
                        .enumerate()
                        .map(|(j, t)| {
                            if (ci + j) % 2 == 0 {
                                format!("E:{}:{}:{}", k, (ci + j) % 5, hex(t))
                            } else {
                                format!("L:{}:{}:{}", k, ci * 16 + j, hex(t))
                            }
                        })
                        .collect();
                    out.push(format!("8 8 new {} - - {}", hex(p), ss.join("/")));
                }
            }
        }
    }
}

enum Search {
    E(usize, Vec<u8>, Vec<u8>),
    L(usize, u64, Vec<u8>),
}

pub fn exec(toks: &[&str]) -> Result<String, String> {
    if toks.len() != 7 {
        return Err("arity".into());
    }
    let ws: usize = parse(toks[0])?;
    let wl: usize = parse(toks[1])?;
    if ws == 0 && wl == 0 {
        return Err("no matcher".into());
    }
    let p = unhex(toks[3])?;
    if p.is_empty() {
        return Err("empty pattern".into());
    }
    let m = p.len();
    if ws != 0 && m > ws {
        return Err("pattern longer than the single word (C09 checks the refusal)".into());
    }
    let amb = mu::parse_amb(toks[4])?;
    let wild = unhex(toks[5])?;
    let mut searches = vec![];
    for s in split_ne(toks[6], '/') {
        let f: Vec<&str> = s.split(':').collect();
        if f.len() != 4 {
            return Err("search".into());
        }
        let k: usize = parse(f[1])?;
        if ws != 0 && k > 255 {
            return Err("k > 255 with the single-word version".into());
        }
        let t = unhex(f[3])?;
        match f[0] {
            "E" => {
                let script: Vec<u8> = f[2]
                    .bytes()
                    .map(|c| if c.is_ascii_digit() { Ok(c - b'0') } else { Err("script".to_string()) })
                    .collect::<Result<_, _>>()?;
                if script.iter().any(|&c| c > 4 && c != 9) {
                    return Err("script digit".into());
                }
                searches.push(Search::E(k, script, t));
            }
            "L" => searches.push(Search::L(k, parse(f[2])?, t)),
            _ => return Err("search kind".into()),
        }
    }
    let mut simple = if ws != 0 { Some(mu::build(true, ws, toks[2], &p, &amb, &wild)?) } else { None };
    let mut long = if wl != 0 { Some(mu::build(false, wl, toks[2], &p, &amb, &wild)?) } else { None };
    let mut outs = vec![];
    for s in &searches {
        let mut diffs: Vec<String> = vec![];
        match s {
            Search::E(k, script, t) => {
                let mut res: Vec<mu::EagerOut> = vec![];
                if let Some(my) = simple.as_mut() {
                    let r = my.eager(t, *k, m, script)?;
                    let fae = my.fae(t, *k)?;
                    let ends: Vec<(usize, usize)> = r.hits.iter().map(|h| (h.end - 1, h.dist)).collect();
                    let ok = if r.stopped { fae.starts_with(&ends) } else { fae == ends };
                    if !ok {
                        diffs.push("eager-vs-find_all_end".into());
                    }
                    res.push(r);
                }
                if let Some(my) = long.as_mut() {
                    let r = my.eager(t, *k, m, script)?;
                    let fae = my.fae(t, *k)?;
                    let ends: Vec<(usize, usize)> = r.hits.iter().map(|h| (h.end - 1, h.dist)).collect();
                    let ok = if r.stopped { fae.starts_with(&ends) } else { fae == ends };
                    if !ok {
                        diffs.push("eager-vs-find_all_end".into());
                    }
                    res.push(r);
                }
                if res.len() == 2 && res[0].hits != res[1].hits {
                    diffs.push("block-vs-single".into());
                }
                for r in &res {
                    diffs.extend(r.diffs.iter().cloned());
                }
                let r = &res[0];
                diffs.sort();
                diffs.dedup();
                outs.push(format!(
                    "H={};X=-;stop={};q=0;u=0;{}",
                    show_hits(&r.hits),
                    r.stopped as u8,
                    if diffs.is_empty() { "api:same".to_string() } else { format!("api:differs:{}", diffs.join("+")) }
                ));
            }
            Search::L(k, seed, t) => {
                let mut res: Vec<mu::LazyOut> = vec![];
                if let Some(my) = simple.as_mut() {
                    let r = my.lazy(t, *k, m, *seed, true)?;
                    if my.fae(t, *k)? != r.ends {
                        diffs.push("lazy-vs-find_all_end".into());
                    }
                    res.push(r);
                }
                if let Some(my) = long.as_mut() {
                    let r = my.lazy(t, *k, m, *seed, false)?;
                    if my.fae(t, *k)? != r.ends {
                        diffs.push("lazy-vs-find_all_end".into());
                    }
                    res.push(r);
                }
                if res.len() == 2 && res[0].hits != res[1].hits {
                    diffs.push("block-vs-single".into());
                }
                // eager against lazy on the same object
                for my in [simple.as_mut(), long.as_mut()].into_iter().flatten() {
                    let e = my.eager(t, *k, m, &[2])?;
                    if e.hits != res[0].hits {
                        diffs.push("eager-vs-lazy".into());
                    }
                }
                for r in &res {
                    diffs.extend(r.diffs.iter().cloned());
                    let he: Vec<(usize, usize)> = r.hits.iter().map(|h| (h.end - 1, h.dist)).collect();
                    if he != r.ends {
                        diffs.push("lazy-hits-vs-iterated".into());
                    }
                }
                let r = &res[0];
                diffs.sort();
                diffs.dedup();
                outs.push(format!(
                    "H={};X={};stop=0;q={};u={};{}",
                    show_hits(&r.hits),
                    show_hits(&r.extra),
                    r.n_queries,
                    r.n_unvisited,
                    if diffs.is_empty() { "api:same".to_string() } else { format!("api:differs:{}", diffs.join("+")) }
                ));
            }
        }
    }
    Ok(outs.join("/"))
}
