//! C10 — Myers traceback and API agreement.
//!
//! `<ws> <wl> <new|bld> <pattern> <amb> <wild> <search>/<search>/…`
//!     ws = word size of the single-word matcher (0: none), wl = word size of the block-based matcher (0: none);
//!     both given: every search runs on both and the alignments must be identical.
//!     One matcher object of each kind serves all searches of the line (history).
//!     search = `E:<k>:<script digits>:<text>`  eager API (`find_all`); script: entry point used per hit
//!                   (0 next, 1 next_end, 2 next_path, 3 next_path_reverse, 4 next_alignment, 9 drop the iterator)
//!            | `L:<k>:<seed>:<text>`           lazy API (`find_all_lazy`), `*_at` queries interleaved at random
//! observation per search:
//!     `H=<start:end:dist:ops,…>;X=<…>;stop=<0|1>;q=<queries>;u=<unvisited probes>;api:same|api:differs:<what+…>`
//!     H: one traceback per reported hit (end exclusive), X: tracebacks at visited ends that are not hits
//!     (single-word version only).  Harness-side agreement (impl against impl): every accessor of the eager API,
//!     every `*_at` repetition, `Alignment` fields, both against `find_all_end`, block-based against single-word,
//!     `*_at` at a position not yet searched → `None`.
//! Generator: `gen_case` (random histories, see DESIGN §7 / docs/notes/C10.md) and `gen_overhang` (structured history:
//! ring wrapped by an earlier search, then hits overhanging the text start by more than one word).
use crate::c09::mu;
use crate::util::*;

fn show_hits(h: &[mu::Hit]) -> String {
    if h.is_empty() {
        "-".into()
    } else {
        h.iter().map(|x| x.show()).collect::<Vec<_>>().join(",")
    }
}

fn gen_case(rng: &mut Rng, out: &mut Vec<String>, i: usize) {
    let w = mu::word_sizes()[i % 4];
    // 0: single only, 1: block only, 2: both (same word), 3: both (single u64 when it fits)
    let kind = match (i / 4) % 8 {
        0 => 0,
        1..=4 => 1,
        5 | 6 => 2,
        _ => 3,
    };
    let alpha = mu::alphabet(rng);
    let simple_involved = kind != 1;
    let mut m = mu::pat_len(rng, w, simple_involved);
    if !simple_involved && m > 70 && rng.chance(1, 2) {
        m = w + 1 + rng.below(w.min(20) + 1);
    }
    let (ws, wl) = match kind {
        0 => (w, 0),
        1 => (0, w),
        2 => (w, w),
        _ => (64, w),
    };
    let m = if ws != 0 { m.min(ws) } else { m };
    let p = mu::pattern(rng, &alpha, m);
    let (amb, wild, mode) = match rng.below(4) {
        0 => (vec![], vec![], "bld"),
        1 => {
            let (a, w) = mu::tables(rng, &alpha, &p);
            (a, w, "bld")
        }
        _ => (vec![], vec![], "new"),
    };
    let mut extra: Vec<u8> = wild.clone();
    for (_, e) in &amb {
        extra.extend(e);
    }
    let ns = 1 + rng.below(4);
    let mut ss = vec![];
    for _ in 0..ns {
        let mut k = mu::threshold(rng, m, true).min(m + 5);
        if rng.chance(1, 10) {
            k = 255;
        }
        // several blocks and a small k: only part of the blocks of a column is computed (band), the traceback
        // runs along the edge of the computed region
        if !simple_involved && m > w && rng.chance(2, 3) {
            k = rng.below((m - w).clamp(1, 12) + 1);
        }
        let band = !simple_involved && m > w && rng.chance(1, 2);
        if band {
            k = rng.below(4);
        }
        let mut t = if band { mu::band_text(rng, &alpha, &p, k, w) } else { mu::text(rng, &alpha, &p, k) };
        if !extra.is_empty() {
            for x in t.iter_mut() {
                if rng.chance(1, 12) {
                    *x = *rng.pick(&extra);
                }
            }
        }
        // keep the printed tracebacks small when (nearly) every position is a hit
        if 2 * k >= m {
            t.truncate((3000 / m).max(8));
        }
        if rng.chance(1, 2) {
            let n = 1 + rng.below(6);
            let mut script: String = (0..n).map(|_| char::from(b'0' + rng.below(5) as u8)).collect();
            if rng.chance(1, 8) {
                script.push('9');
            }
            ss.push(format!("E:{}:{}:{}", k, script, hex(&t)));
        } else {
            ss.push(format!("L:{}:{}:{}", k, rng.below(1 << 30), hex(&t)));
        }
    }
    out.push(format!("{} {} {} {} {} {} {}", ws, wl, mode, hex(&p), mu::show_amb(&amb), hex(&wild), ss.join("/")));
}

/// "overhang after wrap": one block-based object, several blocks.  (1) an eager search on a long text without
/// (close) occurrences: the ring buffer of `find_all` wraps, so that slot 0 — the guard column left of the initial
/// column of every later search — holds a real column in *all* blocks; (2) searches (eager and lazy) on texts that
/// begin in the middle of an occurrence: the hit at the very start of the text has more than one word of leading
/// `Ins`, so its traceback reaches the initial column in a lower block and looks at the lower blocks of the guard
/// column (`LongStatesHandler::set_max_state` has to reset every block of it).  Needs k > w.
fn gen_overhang(rng: &mut Rng, out: &mut Vec<String>, tier: &str) {
    let w: usize = match rng.below(16) {
        0..=10 => 8,
        11..=14 => 16,
        _ => {
            if tier == "thorough" && rng.chance(1, 4) {
                64
            } else {
                32
            }
        }
    };
    // 2–4 blocks (u8), 2–3 (u16), 2 (u32/u64: a few symbols beyond the first block); m ≥ w + 3: a path that
    // reaches the initial column in row w + 2 (there the diagonal neighbour is in block 1 of the guard column; in row
    // w + 1 it is still in block 0) and still ends at a text position
    let m = match w {
        8 => w + 3 + rng.below(3 * w - 4),
        16 => w + 3 + rng.below(2 * w - 2),
        _ => w + 3 + rng.below(12),
    };
    // The traceback tests Ins before Match, so an overhanging hit keeps its leading Ins run (and reaches the initial
    // column in a lower block) only where the rest of the pattern cannot be matched further down as well: mostly
    // large alphabets and non-periodic patterns.
    let alpha: Vec<u8> = match rng.below(8) {
        0 | 1 => vec![b'a', b'c', b'g', b't'],
        2 => {
            if rng.chance(1, 2) {
                vec![b'a', b'b', b'c']
            } else {
                vec![b'a', b'b']
            }
        }
        3..=5 => (b'a'..=b'p').collect(),
        _ => (b'a'..=b'w').collect(),
    };
    let foreign: Vec<u8> = vec![b'x', b'y', b'z'];
    let p = if rng.chance(1, 4) { mu::pattern(rng, &alpha, m) } else { rng.seq(&alpha, m) };
    // single-word partner (identical alignments demanded) for half of the lines
    let ws = if m <= 64 && rng.chance(1, 2) { 64 } else { 0 };
    let mode = if rng.chance(1, 4) { "bld" } else { "new" };
    let mut ss = vec![];
    let later = 2 + rng.below(3);
    // offsets into the pattern at which the later texts begin: more than one word is missing
    let cut = |rng: &mut Rng| {
        if rng.chance(1, 2) {
            w + 2 + rng.below((m - w - 2).min(4))
        } else {
            w + 1 + rng.below(m - w - 1)
        }
    };
    let d0 = cut(rng);
    let kmax = (d0 + rng.below(3)).min(m);
    // (1) the wrapping search: k1 large enough that the lower blocks are computed (dist of block b of an unrelated
    // column is about (b+1)·w; a block is computed while the one above is ≤ k1), text without the pattern's
    // symbols (D[i][j] = i: no hits for k1 < m) or random
    let k1 = match rng.below(4) {
        0 => kmax,
        1 => m - 1,
        2 => m,
        _ => kmax + rng.below(m - kmax + 1),
    };
    let ncols = m + k1.min(m) + 2;
    let n1 = ncols - 1 + rng.below(2 * ncols);
    let t1 = if rng.chance(2, 3) {
        let fa = if rng.chance(1, 2) { foreign[..1].to_vec() } else { foreign.clone() };
        rng.seq(&fa, n1)
    } else {
        let mut t = rng.seq(&alpha, n1);
        if 2 * k1 >= m {
            t.truncate(ncols + 3 + rng.below(8));
        }
        t
    };
    ss.push(format!("E:{}:{}:{}", k1, rng.below(5), hex(&t1)));
    // (2) texts beginning in the middle of an occurrence
    for j in 0..later {
        let d = if j == 0 { d0 } else { cut(rng) };
        let e = *rng.pick(&[0usize, 0, 0, 1, 2]);
        let ta = if rng.chance(1, 3) { &foreign } else { &alpha };
        // degenerate overhang (1/5): nothing of the pattern is left, k ≥ m − 1: the hits at the first positions are
        // m − 1, m − 2, … Ins followed by Subst
        let nothing = rng.chance(1, 5);
        let (t, k) = if nothing {
            let n = 1 + rng.below(6);
            (rng.seq(ta, n), m - 1 + rng.below(3))
        } else {
            let mut t = mu::plant(rng, &p[d..], &alpha, e, m);
            let tail = *rng.pick(&[0usize, 0, 1, 2, 3, w, m / 2, m]);
            t.extend(rng.seq(ta, tail));
            let k = match rng.below(6) {
                0 => m,
                1 => d + e,
                2 => (d + e).saturating_sub(1).max(w + 1),
                _ => (d + e + rng.below(3)).min(m),
            };
            (t, k)
        };
        if rng.chance(1, 2) {
            let n = 1 + rng.below(4);
            let script: String = (0..n).map(|_| char::from(b'0' + rng.below(5) as u8)).collect();
            ss.push(format!("E:{}:{}:{}", k, script, hex(&t)));
        } else {
            ss.push(format!("L:{}:{}:{}", k, rng.below(1 << 30), hex(&t)));
        }
        // now and then another wrapping search in between (slot 0 is overwritten again)
        if j + 1 < later && rng.chance(1, 4) {
            let n = m + k.min(m) + 1 + rng.below(m);
            ss.push(format!("E:{}:0:{}", k, hex(&rng.seq(&foreign, n))));
        }
    }
    let none: Vec<u8> = vec![];
    out.push(format!("{} {} {} {} {} {} {}", ws, w, mode, hex(&p), mu::show_amb(&[]), hex(&none), ss.join("/")));
}

fn enum_seqs(alpha: &[u8], maxlen: usize, minlen: usize) -> Vec<Vec<u8>> {
    let mut out = vec![];
    let mut cur: Vec<Vec<u8>> = vec![vec![]];
    for l in 0..=maxlen {
        if l >= minlen {
            out.extend(cur.iter().cloned());
        }
        let mut nxt = vec![];
        for s in &cur {
            for &a in alpha {
                let mut t = s.clone();
                t.push(a);
                nxt.push(t);
            }
        }
        cur = nxt;
    }
    out
}

pub fn gen(tier: &str, rng: &mut Rng, out: &mut Vec<String>) {
    let n = if tier == "thorough" { 200_000 } else { 5_000 };
    for i in 0..n {
        gen_case(rng, out, i);
    }
    // structured history (after the random cases, so that their random stream is unchanged)
    let n_over = if tier == "thorough" { 20_000 } else { 400 };
    for _ in 0..n_over {
        gen_overhang(rng, out, tier);
    }
    if tier == "thorough" {
        // exhaustive small scope: all p (1..=4), t (0..=7) over {a,b}, k 0..=4; u8 single + u8 blocks
        let ps = enum_seqs(b"ab", 4, 1);
        let ts = enum_seqs(b"ab", 7, 0);
        for p in &ps {
            for k in 0..=4usize {
                for (ci, chunk) in ts.chunks(16).enumerate() {
                    let ss: Vec<String> = chunk
                        .iter()
                        .enumerate()
                        .map(|(j, t)| {
                            if (ci + j) % 2 == 0 {
                                format!("E:{}:{}:{}", k, (ci + j) % 5, hex(t))
                            } else {
                                format!("L:{}:{}:{}", k, ci * 16 + j, hex(t))
                            }
                        })
                        .collect();
                    out.push(format!("8 8 new {} - - {}", hex(p), ss.join("/")));
                }
            }
        }
    }
}

enum Search {
    E(usize, Vec<u8>, Vec<u8>),
    L(usize, u64, Vec<u8>),
}

pub fn exec(toks: &[&str]) -> Result<String, String> {
    if toks.len() != 7 {
        return Err("arity".into());
    }
    let ws: usize = parse(toks[0])?;
    let wl: usize = parse(toks[1])?;
    if ws == 0 && wl == 0 {
        return Err("no matcher".into());
    }
    let p = unhex(toks[3])?;
    if p.is_empty() {
        return Err("empty pattern".into());
    }
    let m = p.len();
    if ws != 0 && m > ws {
        return Err("pattern longer than the single word (C09 checks the refusal)".into());
    }
    let amb = mu::parse_amb(toks[4])?;
    let wild = unhex(toks[5])?;
    let mut searches = vec![];
    for s in split_ne(toks[6], '/') {
        let f: Vec<&str> = s.split(':').collect();
        if f.len() != 4 {
            return Err("search".into());
        }
        let k: usize = parse(f[1])?;
        if ws != 0 && k > 255 {
            return Err("k > 255 with the single-word version".into());
        }
        let t = unhex(f[3])?;
        match f[0] {
            "E" => {
                let script: Vec<u8> = f[2]
                    .bytes()
                    .map(|c| if c.is_ascii_digit() { Ok(c - b'0') } else { Err("script".to_string()) })
                    .collect::<Result<_, _>>()?;
                if script.iter().any(|&c| c > 4 && c != 9) {
                    return Err("script digit".into());
                }
                searches.push(Search::E(k, script, t));
            }
            "L" => searches.push(Search::L(k, parse(f[2])?, t)),
            _ => return Err("search kind".into()),
        }
    }
    let mut simple = if ws != 0 { Some(mu::build(true, ws, toks[2], &p, &amb, &wild)?) } else { None };
    let mut long = if wl != 0 { Some(mu::build(false, wl, toks[2], &p, &amb, &wild)?) } else { None };
    let mut outs = vec![];
    for s in &searches {
        let mut diffs: Vec<String> = vec![];
        match s {
            Search::E(k, script, t) => {
                let mut res: Vec<mu::EagerOut> = vec![];
                if let Some(my) = simple.as_mut() {
                    let r = my.eager(t, *k, m, script)?;
                    let fae = my.fae(t, *k)?;
                    let ends: Vec<(usize, usize)> = r.hits.iter().map(|h| (h.end - 1, h.dist)).collect();
                    let ok = if r.stopped { fae.starts_with(&ends) } else { fae == ends };
                    if !ok {
                        diffs.push("eager-vs-find_all_end".into());
                    }
                    res.push(r);
                }
                if let Some(my) = long.as_mut() {
                    let r = my.eager(t, *k, m, script)?;
                    let fae = my.fae(t, *k)?;
                    let ends: Vec<(usize, usize)> = r.hits.iter().map(|h| (h.end - 1, h.dist)).collect();
                    let ok = if r.stopped { fae.starts_with(&ends) } else { fae == ends };
                    if !ok {
                        diffs.push("eager-vs-find_all_end".into());
                    }
                    res.push(r);
                }
                if res.len() == 2 && res[0].hits != res[1].hits {
                    diffs.push("block-vs-single".into());
                }
                for r in &res {
                    diffs.extend(r.diffs.iter().cloned());
                }
                let r = &res[0];
                diffs.sort();
                diffs.dedup();
                outs.push(format!(
                    "H={};X=-;stop={};q=0;u=0;{}",
                    show_hits(&r.hits),
                    r.stopped as u8,
                    if diffs.is_empty() { "api:same".to_string() } else { format!("api:differs:{}", diffs.join("+")) }
                ));
            }
            Search::L(k, seed, t) => {
                let mut res: Vec<mu::LazyOut> = vec![];
                if let Some(my) = simple.as_mut() {
                    let r = my.lazy(t, *k, m, *seed, true)?;
                    if my.fae(t, *k)? != r.ends {
                        diffs.push("lazy-vs-find_all_end".into());
                    }
                    res.push(r);
                }
                if let Some(my) = long.as_mut() {
                    let r = my.lazy(t, *k, m, *seed, false)?;
                    if my.fae(t, *k)? != r.ends {
                        diffs.push("lazy-vs-find_all_end".into());
                    }
                    res.push(r);
                }
                if res.len() == 2 && res[0].hits != res[1].hits {
                    diffs.push("block-vs-single".into());
                }
                // eager against lazy on the same object
                for my in [simple.as_mut(), long.as_mut()].into_iter().flatten() {
                    let e = my.eager(t, *k, m, &[2])?;
                    if e.hits != res[0].hits {
                        diffs.push("eager-vs-lazy".into());
                    }
                }
                for r in &res {
                    diffs.extend(r.diffs.iter().cloned());
                    let he: Vec<(usize, usize)> = r.hits.iter().map(|h| (h.end - 1, h.dist)).collect();
                    if he != r.ends {
                        diffs.push("lazy-hits-vs-iterated".into());
                    }
                }
                let r = &res[0];
                diffs.sort();
                diffs.dedup();
                outs.push(format!(
                    "H={};X={};stop=0;q={};u={};{}",
                    show_hits(&r.hits),
                    show_hits(&r.extra),
                    r.n_queries,
                    r.n_unvisited,
                    if diffs.is_empty() { "api:same".to_string() } else { format!("api:differs:{}", diffs.join("+")) }
                ));
            }
        }
    }
    Ok(outs.join("/"))
}
