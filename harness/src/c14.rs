//! C14 — HMM decoding and likelihoods.
//!
//! `<kind> d:<d> init:<k,…> trans:<row;row;…> emit:<row;row;…> end:<k,…|x> obs:<o,…>
//!      => vit:<s,…>:<ln p> fwd:<ln p> bwd:<ln p>`
//!
//! kind = plain (`discrete_emission::Model`) | optnone (`discrete_emission_opt_end::Model`, end = None) |
//! optend (… with the end vector).  Every probability is `k/d`, handed to `with_float` as `k as f64 / d as f64`.
//! The three `LogProb` results are printed with `{:e}` (shortest round-trip representation; `-inf`, `NaN`).
use crate::util::*;
use bio::stats::hmm::discrete_emission::Model as Plain;
use bio::stats::hmm::discrete_emission_opt_end::Model as OptEnd;
use bio::stats::hmm::{backward, forward, viterbi, Model};
use ndarray::{Array1, Array2};

/// a row of `n` numerators over `d`
fn row(rng: &mut Rng, n: usize, d: usize) -> Vec<usize> {
    match rng.below(10) {
        // stochastic: d units thrown at few cells (zeros frequent)
        0..=3 => {
            let mut r = vec![0; n];
            let cells: Vec<usize> = (0..1 + rng.below(n)).map(|_| rng.below(n)).collect();
            for _ in 0..d {
                r[*rng.pick(&cells)] += 1;
            }
            r
        }
        // all entries equal (ties), stochastic when n divides d
        4 => vec![d / n; n],
        5 => {
            let k = rng.below(d + 1) / n.max(1);
            vec![k; n]
        }
        // one-hot
        6 => {
            let mut r = vec![0; n];
            r[rng.below(n)] = d;
            r
        }
        // sub-stochastic: random entries, sum <= d
        7 | 8 => {
            let mut left = d;
            let mut r = vec![0; n];
            for _ in 0..n {
                let i = rng.below(n);
                if r[i] == 0 && left > 0 && rng.chance(2, 3) {
                    let k = 1 + rng.below(left);
                    r[i] = k;
                    left -= k;
                }
            }
            r
        }
        // two equal halves (a tie between two states)
        _ => {
            let mut r = vec![0; n];
            let a = rng.below(n);
            let b = rng.below(n);
            r[a] += d / 2;
            r[b] += d / 2;
            r
        }
    }
}

fn endvec(rng: &mut Rng, n: usize, d: usize) -> Vec<usize> {
    match rng.below(8) {
        0 => vec![d; n],
        1 => vec![rng.below(d + 1); n],
        2 => {
            let mut r = vec![0; n];
            r[rng.below(n)] = 1 + rng.below(d);
            r
        }
        _ => (0..n).map(|_| if rng.chance(1, 4) { 0 } else { rng.below(d + 1) }).collect(),
    }
}

fn fmt_rows(rows: &[Vec<usize>]) -> String {
    rows.iter().map(|r| join(r, ",")).collect::<Vec<_>>().join(";")
}

fn line(kind: &str, d: usize, init: &[usize], trans: &[Vec<usize>], emit: &[Vec<usize>], end: Option<&[usize]>, obs: &[usize]) -> String {
    format!(
        "{} d:{} init:{} trans:{} emit:{} end:{} obs:{}",
        kind,
        d,
        join(init, ","),
        fmt_rows(trans),
        fmt_rows(emit),
        match end {
            Some(e) => join(e, ","),
            None => "x".to_string(),
        },
        join(obs, ",")
    )
}

/// last column of the exact Viterbi matrix *without* end term (numerators; `d <= 12`, `T <= 10`: below 2^80)
fn last_column(init: &[usize], trans: &[Vec<usize>], emit: &[Vec<usize>], obs: &[usize]) -> Vec<u128> {
    let s = init.len();
    let mut col: Vec<u128> = (0..s).map(|q| (init[q] * emit[q][obs[0]]) as u128).collect();
    for &o in &obs[1..] {
        col = (0..s)
            .map(|j| (0..s).map(|k| col[k] * trans[k][j] as u128).max().unwrap() * emit[j][o] as u128)
            .collect();
    }
    col
}

/// An end vector under which **no** path that is optimal without the end term stays optimal: the states whose
/// last-column value is the maximum get a small end weight, a state with a smaller non-zero value gets the full
/// weight.  `None` when the last column has fewer than two distinct non-zero values (nothing to flip).
/// This is the regression guard for the repaired defect C14-viterbi-ignores-end and for any variant that applies the end
/// term at the wrong place (first column, after the arg-max, …).
fn flipping_end(rng: &mut Rng, d: usize, col: &[u128]) -> Option<Vec<usize>> {
    let vmax = *col.iter().max().unwrap();
    let second = col.iter().cloned().filter(|&v| v > 0 && v < vmax).max()?;
    // largest k with k * vmax < d * second  (k < d because second < vmax)
    let kmax = ((d as u128 * second - 1) / vmax) as usize;
    let k = if rng.chance(1, 3) { kmax } else { rng.below(kmax + 1) };
    let runner: Vec<usize> = (0..col.len()).filter(|&q| col[q] == second).collect();
    let fav = *rng.pick(&runner);
    Some(
        (0..col.len())
            .map(|q| {
                if col[q] == vmax {
                    k
                } else if q == fav {
                    d
                } else {
                    rng.below(d + 1)
                }
            })
            .collect(),
    )
}

fn random_case(rng: &mut Rng, tmax: usize) -> String {
    let s = *rng.pick(&[1usize, 2, 2, 2, 2, 3, 3, 3, 4, 4]);
    let m = *rng.pick(&[1usize, 2, 2, 2, 3, 3, 4]);
    let d = *rng.pick(&[1usize, 2, 2, 3, 4, 4, 5, 6, 8, 10, 10, 12]);
    let t = match rng.below(40) {
        0..=7 => 1,
        8..=15 => 2,
        16..=19 => 3,
        // a few long sequences (probabilities down to 1e-60 and below: log-space stability)
        20 => 9 + rng.below(22),
        _ => 1 + rng.below(tmax),
    };
    let init = row(rng, s, d);
    let trans: Vec<Vec<usize>> = (0..s).map(|_| row(rng, s, d)).collect();
    let emit: Vec<Vec<usize>> = (0..s).map(|_| row(rng, m, d)).collect();
    // observations: mostly simulated along the support of the model (so that the likelihood is non-zero),
    // sometimes uniformly random (impossible sequences are frequent then)
    let obs: Vec<usize> = if rng.chance(3, 4) {
        let supp = |r: &[usize]| -> Vec<usize> { (0..r.len()).filter(|&i| r[i] > 0).collect() };
        let mut o = vec![];
        let mut cur_row: Vec<usize> = init.clone();
        for _ in 0..t {
            let ss = supp(&cur_row);
            // prefer states that can emit something
            let ss2: Vec<usize> = ss.iter().cloned().filter(|&q| emit[q].iter().any(|&k| k > 0)).collect();
            let q = if !ss2.is_empty() { *rng.pick(&ss2) } else if !ss.is_empty() { *rng.pick(&ss) } else { rng.below(s) };
            let es = supp(&emit[q]);
            o.push(if es.is_empty() { rng.below(m) } else { *rng.pick(&es) });
            cur_row = trans[q].clone();
        }
        o
    } else {
        (0..t).map(|_| rng.below(m)).collect()
    };
    let kind = *rng.pick(&["plain", "plain", "plain", "optnone", "optnone", "optend", "optend", "optend", "optend"]);
    let end = if kind == "optend" { Some(endvec(rng, s, d)) } else { None };
    line(kind, d, &init, &trans, &emit, end.as_deref(), &obs)
}

/// a model with an end vector that changes the arg-max (see `flipping_end`); falls back to `random_case`
/// after a few attempts (e.g. when one state or d = 1 was drawn)
fn flip_case(rng: &mut Rng, tmax: usize) -> String {
    for _ in 0..20 {
        let s = *rng.pick(&[2usize, 2, 2, 3, 3, 4]);
        let m = *rng.pick(&[1usize, 2, 2, 3, 4]);
        let d = *rng.pick(&[2usize, 3, 4, 5, 6, 8, 10, 10, 12]);
        let t = match rng.below(10) {
            0 | 1 => 1,
            2 | 3 => 2,
            4 => 3,
            _ => 1 + rng.below(tmax),
        };
        // rows with several non-zero cells, so that more than one state is reachable at the end
        let dense = |rng: &mut Rng, n: usize| -> Vec<usize> {
            if rng.chance(1, 3) {
                row(rng, n, d)
            } else {
                let mut r = vec![0; n];
                for _ in 0..d {
                    r[rng.below(n)] += 1;
                }
                r
            }
        };
        let init = dense(rng, s);
        let trans: Vec<Vec<usize>> = (0..s).map(|_| dense(rng, s)).collect();
        let emit: Vec<Vec<usize>> = (0..s).map(|_| dense(rng, m)).collect();
        let obs: Vec<usize> = (0..t).map(|_| rng.below(m)).collect();
        let col = last_column(&init, &trans, &emit, &obs);
        if let Some(end) = flipping_end(rng, d, &col) {
            return line("optend", d, &init, &trans, &emit, Some(&end), &obs);
        }
    }
    random_case(rng, tmax)
}

/// Two (or three) almost separate chains whose path weights drift apart by hundreds of nats: the terms of one
/// log-sum-exp in forward/backward then differ by 650..780 nats, i.e. on both sides of the point where `exp` underflows
/// (709.78) and of the fast exponential's cut-off (seeded defect C14-5: cut-off lowered to -745 => NaN in that window).
/// The likelihood itself stays an ordinary number (the heavy chain dominates).
fn farapart_case(rng: &mut Rng) -> String {
    // (d, heavy numerator): emission of the frequent symbol in the heavy chain is a/d, in the light chain (d-a)/d
    let (d, a): (usize, usize) = *rng.pick(&[(10usize, 9usize), (10, 9), (100, 99), (4, 3), (5, 4), (10, 8)]);
    let per_step = ((a as f64) / ((d - a) as f64)).ln();
    let target = 640.0 + rng.below(150) as f64; // nats between the two chains at the end
    let t = ((target / per_step).ceil() as usize).max(2);
    let three = rng.chance(1, 4);
    let s = if three { 3 } else { 2 };
    let mut init = vec![d / 2, d - d / 2];
    let mut trans = vec![vec![d, 0], vec![0, d]];
    let mut emit = vec![vec![a, d - a], vec![d - a, a]];
    if three {
        init = vec![d / 2, d - d / 2, 0];
        // a third state reachable from the light chain only
        let leak = 1.min(d - 1);
        trans = vec![vec![d, 0, 0], vec![0, d - leak, leak], vec![0, 0, d]];
        emit.push(vec![d - a, a]);
    }
    // observations: the frequent symbol, with a handful of flips
    let flips = rng.below(4);
    let mut obs = vec![0usize; t];
    for _ in 0..flips {
        let i = rng.below(t);
        obs[i] = 1;
    }
    let kind = *rng.pick(&["plain", "optnone", "optend"]);
    let end: Option<Vec<usize>> = if kind == "optend" { Some((0..s).map(|_| 1 + rng.below(d)).collect()) } else { None };
    line(kind, d, &init, &trans, &emit, end.as_deref(), &obs)
}

/// long sequences over dense models (no zero cells): hundreds of log-space additions in a row
fn long_dense_case(rng: &mut Rng) -> String {
    let s = 2 + rng.below(2);
    let m = 2 + rng.below(2);
    let d = *rng.pick(&[4usize, 6, 10, 12]);
    let t = 60 + rng.below(240);
    let dense = |rng: &mut Rng, n: usize| -> Vec<usize> {
        let mut r = vec![1usize; n];
        for _ in 0..(d - n.min(d)) {
            r[rng.below(n)] += 1;
        }
        r
    };
    let init = dense(rng, s);
    let trans: Vec<Vec<usize>> = (0..s).map(|_| dense(rng, s)).collect();
    let emit: Vec<Vec<usize>> = (0..s).map(|_| dense(rng, m)).collect();
    let obs: Vec<usize> = (0..t).map(|_| rng.below(m)).collect();
    let kind = *rng.pick(&["plain", "optnone", "optend"]);
    let end: Option<Vec<usize>> = if kind == "optend" { Some((0..s).map(|_| 1 + rng.below(d)).collect()) } else { None };
    line(kind, d, &init, &trans, &emit, end.as_deref(), &obs)
}

pub fn gen(tier: &str, rng: &mut Rng, out: &mut Vec<String>) {
    let (n, tmax) = if tier == "thorough" { (80_000, 10) } else { (3_000, 8) };
    let nlong = if tier == "thorough" { 600 } else { 60 };
    for i in 0..nlong {
        out.push(if i % 3 == 2 { long_dense_case(rng) } else { farapart_case(rng) });
    }
    for i in 0..n {
        // every fifth case: an end vector that changes the arg-max
        out.push(if i % 5 == 4 { flip_case(rng, tmax) } else { random_case(rng, tmax) });
    }
    if tier == "thorough" {
        // exhaustive small scope: every 0/1-valued model with S = M = 2 and every observation sequence of length <= 3,
        // for the plain model and for the model with every 0/1 end vector
        for bits in 0u32..1024 {
            let b = |i: u32| ((bits >> i) & 1) as usize;
            let init = vec![b(0), b(1)];
            let trans = vec![vec![b(2), b(3)], vec![b(4), b(5)]];
            let emit = vec![vec![b(6), b(7)], vec![b(8), b(9)]];
            for t in 1..=3usize {
                for ob in 0..(1u32 << t) {
                    let obs: Vec<usize> = (0..t).map(|i| ((ob >> i) & 1) as usize).collect();
                    out.push(line("plain", 1, &init, &trans, &emit, None, &obs));
                    for e in 0..4usize {
                        let end = vec![e & 1, e >> 1];
                        out.push(line("optend", 1, &init, &trans, &emit, Some(&end), &obs));
                    }
                }
            }
        }
    }
}

fn field<'a>(tok: &'a str, key: &str) -> Result<&'a str, String> {
    kv(tok, key)
}

fn rows(s: &str) -> Result<Vec<Vec<usize>>, String> {
    split_ne(s, ';').into_iter().map(|r| parse_list::<usize>(r, ',')).collect()
}

fn run<M: Model<usize>>(hmm: &M, obs: &[usize]) -> String {
    let (path, lv) = viterbi(hmm, obs);
    let (_, lf) = forward(hmm, obs);
    let (_, lb) = backward(hmm, obs);
    let p: Vec<usize> = path.iter().map(|s| **s).collect();
    format!("vit:{}:{:e} fwd:{:e} bwd:{:e}", join(&p, ","), *lv, *lf, *lb)
}

pub fn exec(toks: &[&str]) -> Result<String, String> {
    if toks.len() != 7 {
        return Err("arity".into());
    }
    let kind = toks[0];
    let d: usize = parse(field(toks[1], "d")?)?;
    let init: Vec<usize> = parse_list(field(toks[2], "init")?, ',')?;
    let trans = rows(field(toks[3], "trans")?)?;
    let emit = rows(field(toks[4], "emit")?)?;
    let end_s = field(toks[5], "end")?;
    let end: Option<Vec<usize>> = if end_s == "x" { None } else { Some(parse_list(end_s, ',')?) };
    let obs: Vec<usize> = parse_list(field(toks[6], "obs")?, ',')?;
    let s = init.len();
    let m = emit.first().map(|r| r.len()).unwrap_or(0);
    if d == 0 || s == 0 || m == 0 || obs.is_empty() {
        return Err("empty dimension".into());
    }
    if trans.len() != s || trans.iter().any(|r| r.len() != s) || emit.len() != s || emit.iter().any(|r| r.len() != m) {
        return Err("shape".into());
    }
    if obs.iter().any(|&o| o >= m) {
        return Err("symbol out of range".into());
    }
    if init.iter().chain(trans.iter().flatten()).chain(emit.iter().flatten()).any(|&k| k > d) {
        return Err("numerator above denominator".into());
    }
    if let Some(e) = &end {
        if e.len() != s || e.iter().any(|&k| k > d) {
            return Err("end shape".into());
        }
    }
    if (kind == "optend") != end.is_some() {
        return Err("end vector and kind disagree".into());
    }
    let f = |k: usize| k as f64 / d as f64;
    let a_init = Array1::from(init.iter().map(|&k| f(k)).collect::<Vec<f64>>());
    let a_trans = Array2::from_shape_vec((s, s), trans.iter().flatten().map(|&k| f(k)).collect()).map_err(|e| e.to_string())?;
    let a_emit = Array2::from_shape_vec((s, m), emit.iter().flatten().map(|&k| f(k)).collect()).map_err(|e| e.to_string())?;
    match kind {
        "plain" => {
            let hmm = Plain::with_float(&a_trans, &a_emit, &a_init).map_err(|e| e.to_string())?;
            Ok(run(&hmm, &obs))
        }
        "optnone" => {
            let hmm = OptEnd::with_float(&a_trans, &a_emit, &a_init, None).map_err(|e| e.to_string())?;
            Ok(run(&hmm, &obs))
        }
        "optend" => {
            let a_end = Array1::from(end.unwrap().iter().map(|&k| f(k)).collect::<Vec<f64>>());
            let hmm = OptEnd::with_float(&a_trans, &a_emit, &a_init, Some(&a_end)).map_err(|e| e.to_string())?;
            Ok(run(&hmm, &obs))
        }
        _ => Err("unknown kind".into()),
    }
}
