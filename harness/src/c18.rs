//! C18 — bit-packed containers behave like plain vectors.
//!
//! Three case kinds (one object per line, a whole operation history, one observation per operation):
//!
//! `bitenc w:<width> c:<cap> <op>,<op>,…`            c:0 → `BitEnc::new`, else `with_capacity`
//!     ops  `p:<v>` push · `pv:<n>:<v>` push_values · `s:<i>:<v>` set (i < len) · `g:<i>` get · `it` iter · `clr` clear
//!     obs  mutators `<nr_symbols>/<nr_blocks>` · get `<v>`|`N` · iter `v.v.v`|`-` · a panicking op `P` (history stops)
//!     then ` | <len>/<nr_symbols>/<nr_blocks>/<is_empty> <iter> <get(len)>`   (` | P` after a panic)
//! `si <i8|u8|u16|i16> <new|cap:<n>|fe:<v>:<n>> <op>,…`   SmallInts<i8,isize> / <u8,usize> / <u16,u64> / <i16,i64>
//!     ops  `p:<v>` · `s:<i>:<v>` (i < len) · `g:<i>` · `it` · `dc` (decompress)
//!     obs  mutators `<len>` · get `<v>`|`N` · it/dc `v.v.v`|`-` (a `None` item inside an iteration ends it, as in Rust)
//!     then ` | <len>/<is_empty> <decompress>`
//! `fw <sum|max> <len> <op>,…`                        SumBitTree<i64> / MaxBitTree<u32>
//!     ops  `u:<idx>:<val>` set (idx < len) · `q:<idx>` get (idx < len);  obs `u` · `<value>`;  then ` | get(0).get(1)…`
use crate::util::*;
use bio::data_structures::bit_tree::{MaxBitTree, SumBitTree};
use bio::data_structures::bitenc::BitEnc;
use bio::data_structures::smallints::SmallInts;
use std::panic::{catch_unwind, AssertUnwindSafe};

fn dot<T: ToString>(xs: &[T]) -> String {
    join(xs, ".")
}

// ------------------------------------------------------------------------------------------------ BitEnc

#[allow(deprecated)]
fn exec_bitenc(toks: &[&str]) -> Result<String, String> {
    if toks.len() != 4 {
        return Err("arity".into());
    }
    let w: usize = parse(kv(toks[1], "w")?)?;
    let cap: usize = parse(kv(toks[2], "c")?)?;
    if !(1..=8).contains(&w) || cap > 100_000 {
        return Err("width/cap".into());
    }
    let ops = split_list(toks[3], ',');
    // parse everything first: a malformed line is not a case
    enum Op {
        P(u8),
        Pv(usize, u8),
        S(usize, u8),
        G(usize),
        It,
        Clr,
    }
    let mut parsed = vec![];
    for o in &ops {
        let f: Vec<&str> = o.split(':').collect();
        parsed.push(match (f[0], f.len()) {
            ("p", 2) => Op::P(parse(f[1])?),
            ("pv", 3) => {
                let n: usize = parse(f[1])?;
                if n > 5000 {
                    return Err("pv count".into());
                }
                Op::Pv(n, parse(f[2])?)
            }
            ("s", 3) => Op::S(parse(f[1])?, parse(f[2])?),
            ("g", 2) => Op::G(parse(f[1])?),
            ("it", 1) => Op::It,
            ("clr", 1) => Op::Clr,
            _ => return Err(format!("bad op {}", o)),
        });
    }
    let mut be = if cap == 0 { BitEnc::new(w) } else { BitEnc::with_capacity(w, cap) };
    let mut obs: Vec<String> = vec![];
    let mut panicked = false;
    for op in &parsed {
        if let Op::S(i, _) = op {
            // `set` beyond the end is outside the property (plain vectors refuse it too)
            if *i >= be.nr_symbols() {
                return Err("set out of range".into());
            }
        }
        let r = catch_unwind(AssertUnwindSafe(|| match op {
            Op::P(v) => {
                be.push(*v);
                format!("{}/{}", be.nr_symbols(), be.nr_blocks())
            }
            Op::Pv(n, v) => {
                be.push_values(*n, *v);
                format!("{}/{}", be.nr_symbols(), be.nr_blocks())
            }
            Op::S(i, v) => {
                be.set(*i, *v);
                format!("{}/{}", be.nr_symbols(), be.nr_blocks())
            }
            Op::G(i) => match be.get(*i) {
                Some(v) => v.to_string(),
                None => "N".into(),
            },
            Op::It => dot(&be.iter().collect::<Vec<u8>>()),
            Op::Clr => {
                be.clear();
                format!("{}/{}", be.nr_symbols(), be.nr_blocks())
            }
        }));
        match r {
            Ok(s) => obs.push(s),
            Err(_) => {
                obs.push("P".into());
                panicked = true;
                break;
            }
        }
    }
    let fin = if panicked {
        "P".to_string()
    } else {
        match catch_unwind(AssertUnwindSafe(|| {
            let vals: Vec<u8> = be.iter().collect();
            let beyond = match be.get(be.nr_symbols()) {
                Some(v) => v.to_string(),
                None => "N".into(),
            };
            format!(
                "{}/{}/{}/{} {} {}",
                be.len(),
                be.nr_symbols(),
                be.nr_blocks(),
                be.is_empty() as u8,
                dot(&vals),
                beyond
            )
        })) {
            Ok(s) => s,
            Err(_) => "P".into(),
        }
    };
    Ok(format!("{} | {}", join(&obs, ","), fin))
}

fn per_block(w: usize) -> usize {
    32 / w
}

fn be_value(rng: &mut Rng, w: usize, masked: bool) -> u8 {
    let m = ((1u32 << w) - 1) as u8;
    if masked {
        return match rng.below(5) {
            0 => 0,
            1 => m,
            _ => (rng.below(256) as u8) & m,
        };
    }
    match rng.below(8) {
        0 => 0,
        1 => m,
        2 => m.wrapping_add(1), // 2^w (0 for w = 8)
        3 => 255,
        4 => (rng.below(256) as u8) & m,
        5 => (rng.below(256) as u8) | m.wrapping_add(1),
        _ => rng.below(256) as u8,
    }
}

fn gen_bitenc(rng: &mut Rng, w: usize, nops: usize) -> String {
    let per = per_block(w);
    let clean = rng.chance(1, 2); // histories that stay clear of the two recorded push_values defects
    let mut len = 0usize;
    let mut ops: Vec<String> = vec![];
    // optional prefix that puts the fill state at a chosen slot of a block
    if rng.chance(1, 3) {
        let pre = rng.below(2 * per + 1);
        for _ in 0..pre.min(12) {
            ops.push(format!("p:{}", be_value(rng, w, clean)));
            len += 1;
        }
    }
    while ops.len() < nops {
        let r = rng.below(100);
        if r < 28 {
            ops.push(format!("p:{}", be_value(rng, w, false)));
            len += 1;
        } else if r < 55 {
            let rem = if len % per == 0 { 0 } else { per - len % per };
            let mut n = match rng.below(10) {
                0 => 0,
                1 => rem,
                2 => rem + 1,
                3 => rem.saturating_sub(1),
                4 => rem + per,
                5 => rem + per + 1,
                6 => rem + per * (1 + rng.below(3)) - rng.below(2),
                7 => rng.below(per + 2),
                _ => rng.below(71),
            };
            if n > 70 {
                n = 70;
            }
            if clean && 32 % w != 0 && rem > 0 && n == rem + 1 {
                n += 1;
            }
            ops.push(format!("pv:{}:{}", n, be_value(rng, w, clean)));
            len += n;
        } else if r < 68 {
            if len == 0 {
                continue;
            }
            let i = match rng.below(4) {
                0 => len - 1,
                1 => (len / per) * per % len,
                2 => ((len / per) * per).saturating_sub(1).min(len - 1),
                _ => rng.below(len),
            };
            ops.push(format!("s:{}:{}", i, be_value(rng, w, false)));
        } else if r < 85 {
            let i = match rng.below(6) {
                0 => len,
                1 => len + 1 + rng.below(per + 1),
                2 => len.saturating_sub(1),
                3 => len + 1000,
                _ => rng.below(len + 1),
            };
            ops.push(format!("g:{}", i));
        } else if r < 95 {
            ops.push("it".into());
        } else {
            ops.push("clr".into());
            len = 0;
        }
    }
    let cap = if rng.chance(1, 5) { 1 + rng.below(100) } else { 0 };
    format!("bitenc w:{} c:{} {}", w, cap, ops.join(","))
}

// ------------------------------------------------------------------------------------------------ SmallInts

/// the four (S, B) pairs; the numeric plumbing is done over i128 so that one generic history runner serves all
mod num_like {
    pub trait SmallT: Copy {
        fn from_i128(v: i128) -> Option<Self>;
    }
    pub trait BigT: Copy + ToString {
        fn from_i128(v: i128) -> Option<Self>;
    }
    macro_rules! imp {
        ($tr:ident: $($t:ty),*) => {$(impl $tr for $t {
            fn from_i128(v: i128) -> Option<Self> { if v >= <$t>::MIN as i128 && v <= <$t>::MAX as i128 { Some(v as $t) } else { None } }
        })*};
    }
    imp!(SmallT: i8, u8, u16, i16);
    imp!(BigT: isize, usize, u64, i64);
}

enum SiOp {
    P(i128),
    S(usize, i128),
    G(usize),
    It,
    Dc,
}

fn parse_si_ops(s: &str) -> Result<Vec<SiOp>, String> {
    let mut out = vec![];
    for o in split_list(s, ',') {
        let f: Vec<&str> = o.split(':').collect();
        out.push(match (f[0], f.len()) {
            ("p", 2) => SiOp::P(parse(f[1])?),
            ("s", 3) => SiOp::S(parse(f[1])?, parse(f[2])?),
            ("g", 2) => SiOp::G(parse(f[1])?),
            ("it", 1) => SiOp::It,
            ("dc", 1) => SiOp::Dc,
            _ => return Err(format!("bad op {}", o)),
        });
    }
    Ok(out)
}

macro_rules! si_runner {
    ($name:ident, $S:ty, $B:ty) => {
        fn $name(ctor: &str, ops: &[SiOp]) -> Result<String, String> {
            use num_like::{BigT, SmallT};
            // validate values first
            for op in ops {
                match op {
                    SiOp::P(v) | SiOp::S(_, v) => {
                        if <$B as BigT>::from_i128(*v).is_none() {
                            return Err("value outside the big type".into());
                        }
                    }
                    _ => {}
                }
            }
            let f: Vec<&str> = ctor.split(':').collect();
            let made = match (f[0], f.len()) {
                ("new", 1) => Ok(SmallInts::<$S, $B>::new()),
                ("cap", 2) => {
                    let n: usize = parse(f[1])?;
                    if n > 100_000 {
                        return Err("cap".into());
                    }
                    Ok(SmallInts::<$S, $B>::with_capacity(n))
                }
                ("fe", 3) => {
                    let v: i128 = parse(f[1])?;
                    let n: usize = parse(f[2])?;
                    if n > 5000 {
                        return Err("fe count".into());
                    }
                    let sv = <$S as SmallT>::from_i128(v).ok_or("value outside the small type")?;
                    catch_unwind(|| SmallInts::<$S, $B>::from_elem(sv, n)).map_err(|_| ())
                }
                _ => return Err("ctor".into()),
            };
            let mut si = match made {
                Ok(x) => x,
                Err(()) => return Ok("P | P".into()),
            };
            let show = |x: Option<$B>| match x {
                Some(v) => v.to_string(),
                None => "N".into(),
            };
            let mut obs: Vec<String> = vec![];
            let mut panicked = false;
            for op in ops {
                if let SiOp::S(i, _) = op {
                    if *i >= si.len() {
                        return Err("set out of range".into());
                    }
                }
                let r = catch_unwind(AssertUnwindSafe(|| match op {
                    SiOp::P(v) => {
                        si.push(<$B as BigT>::from_i128(*v).unwrap());
                        si.len().to_string()
                    }
                    SiOp::S(i, v) => {
                        si.set(*i, <$B as BigT>::from_i128(*v).unwrap());
                        si.len().to_string()
                    }
                    SiOp::G(i) => show(si.get(*i)),
                    SiOp::It => dot(&si.iter().collect::<Vec<$B>>()),
                    SiOp::Dc => dot(&si.decompress()),
                }));
                match r {
                    Ok(s) => obs.push(s),
                    Err(_) => {
                        obs.push("P".into());
                        panicked = true;
                        break;
                    }
                }
            }
            let fin = if panicked {
                "P".to_string()
            } else {
                match catch_unwind(AssertUnwindSafe(|| {
                    // element-wise through `get`, so that a lost element shows as N instead of ending an iteration
                    let vals: Vec<String> = (0..si.len()).map(|i| show(si.get(i))).collect();
                    format!("{}/{} {} {}", si.len(), si.is_empty() as u8, dot(&vals), show(si.get(si.len())))
                })) {
                    Ok(s) => s,
                    Err(_) => "P".into(),
                }
            };
            Ok(format!("{} | {}", join(&obs, ","), fin))
        }
    };
}
si_runner!(run_i8, i8, isize);
si_runner!(run_u8, u8, usize);
si_runner!(run_u16, u16, u64);
si_runner!(run_i16, i16, i64);

fn exec_si(toks: &[&str]) -> Result<String, String> {
    if toks.len() != 4 {
        return Err("arity".into());
    }
    let ops = parse_si_ops(toks[3])?;
    match toks[1] {
        "i8" => run_i8(toks[2], &ops),
        "u8" => run_u8(toks[2], &ops),
        "u16" => run_u16(toks[2], &ops),
        "i16" => run_i16(toks[2], &ops),
        _ => Err("type".into()),
    }
}

/// (small min, small max, big min, big max)
fn si_ranges(ty: &str) -> (i128, i128, i128, i128) {
    match ty {
        "i8" => (-128, 127, i64::MIN as i128, i64::MAX as i128),
        "u8" => (0, 255, 0, u64::MAX as i128),
        "u16" => (0, 65535, 0, u64::MAX as i128),
        _ => (-32768, 32767, i64::MIN as i128, i64::MAX as i128),
    }
}

fn si_value(rng: &mut Rng, ty: &str) -> i128 {
    let (smin, smax, bmin, bmax) = si_ranges(ty);
    let v = match rng.below(12) {
        0 => smax,
        1 => smax - 1,
        2 => smax + 1,
        3 => smax + 2 + rng.below(1000) as i128,
        4 => smin,
        5 => smin - 1,
        6 => smin + 1,
        7 => 0,
        8 => {
            if rng.chance(1, 2) {
                bmax
            } else {
                bmin
            }
        }
        9 => -(rng.below(300) as i128),
        10 => smin - 2 - rng.below(100_000) as i128,
        _ => rng.below(300) as i128,
    };
    v.clamp(bmin, bmax)
}

fn gen_si(rng: &mut Rng, ty: &str, nops: usize) -> String {
    let (smin, smax, _, _) = si_ranges(ty);
    let mut len = 0usize;
    let ctor = match rng.below(10) {
        0..=4 => "new".to_string(),
        5 => format!("cap:{}", rng.below(50)),
        _ => {
            let v = match rng.below(8) {
                0 => smax, // refused by from_elem
                1 => smax - 1,
                2 => smin,
                3 => 0,
                4 => (-(rng.below(100) as i128)).max(smin),
                _ => rng.below(100) as i128,
            };
            let n = rng.below(12);
            if v != smax {
                len = n;
            }
            format!("fe:{}:{}", v, n)
        }
    };
    let mut ops: Vec<String> = vec![];
    while ops.len() < nops {
        let r = rng.below(100);
        if r < 40 {
            ops.push(format!("p:{}", si_value(rng, ty)));
            len += 1;
        } else if r < 65 {
            if len == 0 {
                continue;
            }
            ops.push(format!("s:{}:{}", rng.below(len), si_value(rng, ty)));
        } else if r < 85 {
            let i = match rng.below(5) {
                0 => len,
                1 => len + 1 + rng.below(5),
                _ => rng.below(len + 1),
            };
            ops.push(format!("g:{}", i));
        } else if r < 93 {
            ops.push("it".into());
        } else {
            ops.push("dc".into());
        }
    }
    format!("si {} {} {}", ty, ctor, ops.join(","))
}

// ------------------------------------------------------------------------------------------------ Fenwick trees

fn exec_fw(toks: &[&str]) -> Result<String, String> {
    if toks.len() != 4 {
        return Err("arity".into());
    }
    let n: usize = parse(toks[2])?;
    if n == 0 || n > 5000 {
        return Err("len".into());
    }
    let mut ops: Vec<(bool, usize, i64)> = vec![];
    for o in split_list(toks[3], ',') {
        let f: Vec<&str> = o.split(':').collect();
        match (f[0], f.len()) {
            ("u", 3) => {
                let v: i64 = parse(f[2])?;
                if v.abs() > 1_000_000_000 {
                    return Err("value".into());
                }
                ops.push((true, parse(f[1])?, v))
            }
            ("q", 2) => ops.push((false, parse(f[1])?, 0)),
            _ => return Err(format!("bad op {}", o)),
        }
    }
    if ops.iter().any(|&(_, i, _)| i >= n) {
        return Err("index out of range".into());
    }
    let mut obs: Vec<String> = vec![];
    let fin;
    match toks[1] {
        "sum" => {
            let mut t: SumBitTree<i64> = SumBitTree::new(n);
            for &(upd, i, v) in &ops {
                if upd {
                    t.set(i, v);
                    obs.push("u".into());
                } else {
                    obs.push(t.get(i).to_string());
                }
            }
            fin = dot(&(0..n).map(|i| t.get(i)).collect::<Vec<i64>>());
        }
        "max" => {
            if ops.iter().any(|&(u, _, v)| u && v < 0) {
                return Err("max tree: non-negative values only".into());
            }
            let mut t: MaxBitTree<u32> = MaxBitTree::new(n);
            for &(upd, i, v) in &ops {
                if upd {
                    t.set(i, v as u32);
                    obs.push("u".into());
                } else {
                    obs.push(t.get(i).to_string());
                }
            }
            fin = dot(&(0..n).map(|i| t.get(i)).collect::<Vec<u32>>());
        }
        _ => return Err("kind".into()),
    }
    Ok(format!("{} | {}", join(&obs, ","), fin))
}

fn gen_fw(rng: &mut Rng, nops: usize) -> String {
    let kind = if rng.chance(1, 2) { "sum" } else { "max" };
    let n = match rng.below(6) {
        0 => 1 + rng.below(3),
        1 => *rng.pick(&[7usize, 8, 9, 15, 16, 17, 31, 32, 33, 63, 64, 65]),
        _ => 1 + rng.below(70),
    };
    let mut ops: Vec<String> = vec![];
    for _ in 0..nops {
        if rng.chance(3, 5) {
            let i = match rng.below(5) {
                0 => 0,
                1 => n - 1,
                _ => rng.below(n),
            };
            let v: i64 = if kind == "sum" { rng.range(-1000, 1000) } else { rng.range(0, 40) * rng.range(0, 25) };
            ops.push(format!("u:{}:{}", i, v));
        } else {
            let i = match rng.below(5) {
                0 => 0,
                1 => n - 1,
                _ => rng.below(n),
            };
            ops.push(format!("q:{}", i));
        }
    }
    format!("fw {} {} {}", kind, n, ops.join(","))
}

// ------------------------------------------------------------------------------------------------ entry points

fn enum_bitenc(w: usize, out: &mut Vec<String>) {
    let per = per_block(w);
    let m = (1u32 << w) - 1;
    let mut alpha: Vec<String> = vec![format!("p:0"), format!("p:{}", m), "p:255".into()];
    for n in [2, per + 1] {
        for v in [1u32, 255] {
            alpha.push(format!("pv:{}:{}", n, v));
        }
    }
    alpha.push("s:0:0".into());
    alpha.push("s:0:255".into());
    alpha.push("clr".into());
    let mut cur: Vec<Vec<usize>> = vec![vec![]];
    for _ in 0..4 {
        let mut nxt = vec![];
        for h in &cur {
            for a in 0..alpha.len() {
                let mut g = h.clone();
                g.push(a);
                nxt.push(g);
            }
        }
        for h in &nxt {
            // a leading / dangling `s:0:…` on an empty container is not a case: skip those histories
            let mut len = 0usize;
            let mut ok = true;
            for &a in h {
                let s = &alpha[a];
                if s.starts_with("s:") && len == 0 {
                    ok = false;
                    break;
                }
                if s.starts_with("pv:2") {
                    len += 2;
                } else if s.starts_with("pv:") {
                    len += per + 1;
                } else if s.starts_with("p:") {
                    len += 1;
                } else if s == "clr" {
                    len = 0;
                }
            }
            if ok {
                let ops: Vec<&str> = h.iter().map(|&a| alpha[a].as_str()).collect();
                out.push(format!("bitenc w:{} c:0 {}", w, ops.join(",")));
            }
        }
        cur = nxt;
    }
}

pub fn gen(tier: &str, rng: &mut Rng, out: &mut Vec<String>) {
    let thorough = tier == "thorough";
    let n_be = if thorough { 140_000 } else { 4_200 };
    let n_si = if thorough { 40_000 } else { 1_200 };
    let n_fw = if thorough { 20_000 } else { 600 };
    const WIDTHS: [usize; 14] = [1, 2, 3, 3, 4, 5, 5, 6, 6, 7, 7, 7, 8, 3];
    for i in 0..n_be {
        let w = WIDTHS[i % WIDTHS.len()];
        let nops = match rng.below(4) {
            0 => 1 + rng.below(4),
            _ => 1 + rng.below(40),
        };
        out.push(gen_bitenc(rng, w, nops));
    }
    const TYPES: [&str; 4] = ["i8", "u8", "u16", "i16"];
    for i in 0..n_si {
        let nops = 1 + rng.below(40);
        out.push(gen_si(rng, TYPES[i % 4], nops));
    }
    for _ in 0..n_fw {
        let nops = 1 + rng.below(40);
        out.push(gen_fw(rng, nops));
    }
    if thorough {
        for w in 1..=8 {
            enum_bitenc(w, out);
        }
    }
}

pub fn exec(toks: &[&str]) -> Result<String, String> {
    match toks.first() {
        Some(&"bitenc") => exec_bitenc(toks),
        Some(&"si") => exec_si(toks),
        Some(&"fw") => exec_fw(toks),
        _ => Err("kind".into()),
    }
}
