//! C09 — approximate matchers and distance functions.
//!
//! `my <s|l> <w> <new|bld> <pattern> <amb> <wild> <op>/<op>/…`   one Myers object, operations in turn:
//!        `f:<k>:<text>` find_all_end → `j:d,j:d,…`   `d:<text>` distance → `n`   `b:<text>` find_best_end → `j:d`
//!        (an operation that panics is printed as `P`)
//! `uk <unit|tab:<s>:<digits>> <cap> <k>:<pattern>:<text>/…`      one Ukkonen object, searches in turn → `j:d,…/…`
//! `dist <ham|lev|sham|slev|blev> <a> <b> <k>`                    → `n` | `none`
#[path = "c09_util.rs"]
pub mod mu;

use crate::util::*;
use bio::alignment::distance;
use bio::pattern_matching::ukkonen::{unit_cost, Ukkonen};
use std::panic::{catch_unwind, AssertUnwindSafe};

fn show_pairs(v: &[(usize, usize)]) -> String {
    if v.is_empty() {
        "-".into()
    } else {
        v.iter().map(|(j, d)| format!("{}:{}", j, d)).collect::<Vec<_>>().join(",")
    }
}

fn sprinkle(rng: &mut Rng, t: &mut Vec<u8>, extra: &[u8]) {
    if extra.is_empty() {
        return;
    }
    for x in t.iter_mut() {
        if rng.chance(1, 12) {
            *x = *rng.pick(extra);
        }
    }
}

fn gen_my(rng: &mut Rng, out: &mut Vec<String>, i: usize) {
    let simple = i % 2 == 0;
    let w = mu::word_sizes()[(i / 2) % 4];
    let alpha = mu::alphabet(rng);
    let mut m = mu::pat_len(rng, w, simple);
    if simple && rng.chance(1, 25) {
        m = w + 1 + rng.below(3); // must be refused
    }
    let p = mu::pattern(rng, &alpha, m);
    let (amb, wild, mode) = match rng.below(4) {
        0 => (vec![], vec![], "bld"),
        1 => {
            let (a, w) = mu::tables(rng, &alpha, &p);
            (a, w, "bld")
        }
        _ => (vec![], vec![], "new"),
    };
    let mut extra: Vec<u8> = wild.clone();
    for (_, e) in &amb {
        extra.extend(e);
    }
    let nops = 1 + rng.below(5);
    let mut ops = vec![];
    let band = !simple && m > w && rng.chance(1, 2);
    for _ in 0..nops {
        let k = if band { rng.below(4) } else { mu::threshold(rng, m, simple) };
        let mut t = if band { mu::band_text(rng, &alpha, &p, k, w) } else { mu::text(rng, &alpha, &p, k) };
        sprinkle(rng, &mut t, &extra);
        match rng.below(6) {
            0 => ops.push(format!("d:{}", hex(&t))),
            1 => ops.push(format!("b:{}", hex(&t))),
            _ => ops.push(format!("f:{}:{}", k, hex(&t))),
        }
    }
    out.push(format!(
        "my {} {} {} {} {} {} {}",
        if simple { "s" } else { "l" },
        w,
        mode,
        hex(&p),
        mu::show_amb(&amb),
        hex(&wild),
        ops.join("/")
    ));
}

fn gen_uk(rng: &mut Rng, out: &mut Vec<String>) {
    let alpha = mu::alphabet(rng);
    let cost = if rng.chance(1, 2) {
        "unit".to_string()
    } else {
        let s = 2 + rng.below(3);
        let mut digits = String::new();
        for a in 0..s {
            for b in 0..s {
                // mostly 0 on the diagonal, anything in 0..=3 elsewhere; sometimes a fully random table
                let v = if a == b && rng.chance(4, 5) { 0 } else { rng.below(4) };
                digits.push_str(&v.to_string());
            }
        }
        format!("tab:{}:{}", s, digits)
    };
    let cap = rng.below(12);
    let n = 1 + rng.below(4);
    let mut ss = vec![];
    for _ in 0..n {
        let m = match rng.below(4) {
            0 => 1 + rng.below(3),
            1 => 1 + rng.below(30),
            _ => 1 + rng.below(10),
        };
        let p = mu::pattern(rng, &alpha, m);
        let k = mu::threshold(rng, m, false).min(1000);
        let t = mu::text(rng, &alpha, &p, k);
        ss.push(format!("{}:{}:{}", k, hex(&p), hex(&t)));
    }
    out.push(format!("uk {} {} {}", cost, cap, ss.join("/")));
}

fn gen_dist(rng: &mut Rng, out: &mut Vec<String>) {
    let alpha = mu::alphabet(rng);
    let f = *rng.pick(&["ham", "lev", "sham", "slev", "blev", "blev", "lev", "slev"]);
    let la = match rng.below(5) {
        0 => 0,
        1 => 1 + rng.below(4),
        2 => 30 + rng.below(70),
        _ => rng.below(30),
    };
    let a = rng.seq(&alpha, la);
    let b = if f == "ham" || f == "sham" {
        if rng.chance(1, 12) {
            // different lengths: must be refused
            let lb = rng.below(la + 3);
            rng.seq(&alpha, lb)
        } else {
            let mut b = a.clone();
            for x in b.iter_mut() {
                if rng.chance(1, 4) {
                    *x = *rng.pick(&alpha);
                }
            }
            b
        }
    } else {
        match rng.below(4) {
            0 => {
                let lb = rng.below(40);
                rng.seq(&alpha, lb)
            }
            _ => {
                let rate = *rng.pick(&[0usize, 5, 15, 40]);
                rng.mutate(&a, &alpha, rate)
            }
        }
    };
    let k = match rng.below(6) {
        0 => 0,
        1 => a.len().max(b.len()),
        2 => a.len().max(b.len()) + 1 + rng.below(50),
        3 => 1_000_000,
        _ => rng.below(a.len().max(b.len()) + 2),
    };
    out.push(format!("dist {} {} {} {}", f, hex(&a), hex(&b), k));
}

fn enum_seqs(alpha: &[u8], maxlen: usize, minlen: usize) -> Vec<Vec<u8>> {
    let mut out = vec![];
    let mut cur: Vec<Vec<u8>> = vec![vec![]];
    for l in 0..=maxlen {
        if l >= minlen {
            out.extend(cur.iter().cloned());
        }
        let mut nxt = vec![];
        for s in &cur {
            for &a in alpha {
                let mut t = s.clone();
                t.push(a);
                nxt.push(t);
            }
        }
        cur = nxt;
    }
    out
}

pub fn gen(tier: &str, rng: &mut Rng, out: &mut Vec<String>) {
    let n = if tier == "thorough" { 200_000 } else { 10_000 };
    for i in 0..n {
        match i % 10 {
            8 => gen_uk(rng, out),
            9 => gen_dist(rng, out),
            _ => gen_my(rng, out, i),
        }
    }
    if tier == "thorough" {
        // exhaustive small scope: all p (1..=5), t (0..=8) over {a,b}, k 0..=5; texts grouped per (p, k)
        let ps = enum_seqs(b"ab", 5, 1);
        let ts = enum_seqs(b"ab", 8, 0);
        for p in &ps {
            for k in 0..=5usize {
                for (ci, chunk) in ts.chunks(32).enumerate() {
                    let ops: Vec<String> = chunk.iter().map(|t| format!("f:{}:{}", k, hex(t))).collect();
                    let uks: Vec<String> = chunk.iter().map(|t| format!("{}:{}:{}", k, hex(p), hex(t))).collect();
                    match ci % 3 {
                        0 => out.push(format!("my s 8 new {} - - {}", hex(p), ops.join("/"))),
                        1 => out.push(format!("my l 8 new {} - - {}", hex(p), ops.join("/"))),
                        _ => out.push(format!("my s 64 new {} - - {}", hex(p), ops.join("/"))),
                    }
                    if ci % 2 == 0 {
                        out.push(format!("uk unit 3 {}", uks.join("/")));
                    }
                }
            }
        }
    }
}

pub fn parse_cost(spec: &str) -> Result<Option<(usize, Vec<u32>)>, String> {
    if spec == "unit" {
        return Ok(None);
    }
    let parts: Vec<&str> = spec.split(':').collect();
    if parts.len() != 3 || parts[0] != "tab" {
        return Err("cost spec".into());
    }
    let s: usize = parse(parts[1])?;
    if s == 0 || s > 16 {
        return Err("cost size".into());
    }
    let tab: Vec<u32> = parts[2]
        .chars()
        .map(|c| c.to_digit(10).ok_or_else(|| "cost digit".to_string()))
        .collect::<Result<_, _>>()?;
    if tab.len() != s * s {
        return Err("cost table size".into());
    }
    Ok(Some((s, tab)))
}

pub fn exec(toks: &[&str]) -> Result<String, String> {
    if toks.is_empty() {
        return Err("arity".into());
    }
    match toks[0] {
        "my" => {
            if toks.len() != 8 {
                return Err("arity".into());
            }
            let simple = match toks[1] {
                "s" => true,
                "l" => false,
                _ => return Err("impl".into()),
            };
            let w: usize = parse(toks[2])?;
            let p = unhex(toks[4])?;
            if p.is_empty() {
                return Err("empty pattern".into());
            }
            let amb = mu::parse_amb(toks[5])?;
            let wild = unhex(toks[6])?;
            // parse all operations before touching the implementation
            enum O {
                F(usize, Vec<u8>),
                D(Vec<u8>),
                B(Vec<u8>),
            }
            let mut ops = vec![];
            for o in split_ne(toks[7], '/') {
                let f: Vec<&str> = o.split(':').collect();
                match (f[0], f.len()) {
                    ("f", 3) => {
                        let k: usize = parse(f[1])?;
                        if simple && k > 255 {
                            return Err("k > 255 for the single-word version".into());
                        }
                        ops.push(O::F(k, unhex(f[2])?))
                    }
                    ("d", 2) => ops.push(O::D(unhex(f[1])?)),
                    ("b", 2) => ops.push(O::B(unhex(f[1])?)),
                    _ => return Err("op".into()),
                }
            }
            let my = mu::build(simple, w, toks[3], &p, &amb, &wild)?;
            let mut outs = vec![];
            for o in &ops {
                let r = catch_unwind(AssertUnwindSafe(|| match o {
                    O::F(k, t) => my.fae(t, *k).map(|v| show_pairs(&v)),
                    O::D(t) => Ok(my.dist(t).to_string()),
                    O::B(t) => {
                        let (j, d) = my.best(t);
                        Ok(format!("{}:{}", j, d))
                    }
                }));
                match r {
                    Ok(Ok(s)) => outs.push(s),
                    Ok(Err(e)) => return Err(e),
                    Err(_) => outs.push("P".into()),
                }
            }
            Ok(outs.join("/"))
        }
        "uk" => {
            if toks.len() != 4 {
                return Err("arity".into());
            }
            let cost = parse_cost(toks[1])?;
            let cap: usize = parse(toks[2])?;
            if cap > 10_000 {
                return Err("cap".into());
            }
            let mut searches = vec![];
            for s in split_ne(toks[3], '/') {
                let f: Vec<&str> = s.split(':').collect();
                if f.len() != 3 {
                    return Err("search".into());
                }
                let k: usize = parse(f[0])?;
                // usize::MAX is the documented way of searching "without a limit" (fix f8eb1af: `k + 1` overflowed there)
                if k > 1_000_000 && k != usize::MAX {
                    return Err("k".into());
                }
                let p = unhex(f[1])?;
                if p.is_empty() {
                    return Err("empty pattern".into());
                }
                searches.push((k, p, unhex(f[2])?));
            }
            let mut outs = vec![];
            match cost {
                None => {
                    let mut u = Ukkonen::with_capacity(cap, unit_cost);
                    for (k, p, t) in &searches {
                        let v: Vec<(usize, usize)> = u.find_all_end(p, t, *k).collect();
                        outs.push(show_pairs(&v));
                    }
                }
                Some((s, tab)) => {
                    let f = move |a: u8, b: u8| tab[(a as usize % s) * s + (b as usize % s)];
                    let mut u = Ukkonen::with_capacity(cap, f);
                    for (k, p, t) in &searches {
                        let v: Vec<(usize, usize)> = u.find_all_end(p, t, *k).collect();
                        outs.push(show_pairs(&v));
                    }
                }
            }
            Ok(outs.join("/"))
        }
        "dist" => {
            if toks.len() != 5 {
                return Err("arity".into());
            }
            let a = unhex(toks[2])?;
            let b = unhex(toks[3])?;
            let k: u32 = parse(toks[4])?;
            Ok(match toks[1] {
                "ham" => distance::hamming(&a, &b).to_string(),
                "sham" => distance::simd::hamming(&a, &b).to_string(),
                "lev" => distance::levenshtein(&a, &b).to_string(),
                "slev" => distance::simd::levenshtein(&a, &b).to_string(),
                "blev" => match distance::simd::bounded_levenshtein(&a, &b, k) {
                    Some(d) => d.to_string(),
                    None => "none".into(),
                },
                _ => return Err("fn".into()),
            })
        }
        _ => Err("op".into()),
    }
}
