//! Shared by c01 / c02: scoring tokens, substitution tables, printing of `Alignment` values, sequence generators.
use crate::util::*;
use bio::alignment::pairwise::{MatchFunc, Scoring, MIN_SCORE};
use bio::alignment::{Alignment, AlignmentOperation};

/// substitution function given by a table over a small alphabet
#[derive(Clone, Debug)]
pub struct TabFn {
    pub alpha: Vec<u8>,
    pub idx: Vec<usize>, // 256 entries, usize::MAX outside the alphabet
    pub tab: Vec<i32>,
}

impl MatchFunc for TabFn {
    fn score(&self, a: u8, b: u8) -> i32 {
        let (i, j) = (self.idx[a as usize], self.idx[b as usize]);
        if i == usize::MAX || j == usize::MAX {
            0
        } else {
            self.tab[i * self.alpha.len() + j]
        }
    }
}

#[derive(Clone, Debug)]
pub struct ScSpec {
    pub go: i32,
    pub ge: i32,
    pub clips: [i32; 4], // xp xs yp ys
    pub f: TabFn,
}

impl ScSpec {
    pub fn scoring(&self) -> Scoring<TabFn> {
        Scoring {
            gap_open: self.go,
            gap_extend: self.ge,
            match_fn: self.f.clone(),
            match_scores: None,
            xclip_prefix: self.clips[0],
            xclip_suffix: self.clips[1],
            yclip_prefix: self.clips[2],
            yclip_suffix: self.clips[3],
        }
    }
    pub fn tokens(&self) -> String {
        format!(
            "sc:{}:{}:{}:{}:{}:{} w:{}:{}",
            self.go,
            self.ge,
            self.clips[0],
            self.clips[1],
            self.clips[2],
            self.clips[3],
            hex(&self.f.alpha),
            join(&self.f.tab, ",")
        )
    }
    pub fn in_alphabet(&self, s: &[u8]) -> bool {
        s.iter().all(|&c| self.f.idx[c as usize] != usize::MAX)
    }
}

pub const SANE: i32 = 1024;

/// parse `sc:…` and `w:…`; everything outside the `Sane` envelope is refused (not a case)
pub fn parse_sc(sc_tok: &str, w_tok: &str) -> Result<ScSpec, String> {
    let p: Vec<&str> = sc_tok.split(':').collect();
    if p.len() != 7 || p[0] != "sc" {
        return Err("sc token".into());
    }
    let go: i32 = parse(p[1])?;
    let ge: i32 = parse(p[2])?;
    if go > 0 || ge > 0 || go < -SANE || ge < -SANE {
        return Err("gap penalties outside [-1024,0]".into());
    }
    let mut clips = [0i32; 4];
    for k in 0..4 {
        // `min` = MIN_SCORE of the tree under test (corpus lines stay valid when the constant changes)
        let c: i32 = if p[3 + k] == "min" { MIN_SCORE } else { parse(p[3 + k])? };
        if !(c == MIN_SCORE || (-SANE..=0).contains(&c)) {
            return Err("clip penalty outside {MIN_SCORE} u [-1024,0]".into());
        }
        clips[k] = c;
    }
    let q: Vec<&str> = w_tok.split(':').collect();
    if q.len() != 3 || q[0] != "w" {
        return Err("w token".into());
    }
    let alpha = unhex(q[1])?;
    if alpha.is_empty() || alpha.len() > 8 {
        return Err("alphabet size".into());
    }
    let mut idx = vec![usize::MAX; 256];
    for (i, &c) in alpha.iter().enumerate() {
        if idx[c as usize] != usize::MAX {
            return Err("alphabet repeats a symbol".into());
        }
        idx[c as usize] = i;
    }
    let tab: Vec<i32> = parse_list(q[2], ',')?;
    if tab.len() != alpha.len() * alpha.len() || tab.iter().any(|v| v.abs() > SANE) {
        return Err("table".into());
    }
    Ok(ScSpec { go, ge, clips, f: TabFn { alpha, idx, tab } })
}

/// `parse_sc` for the parametric envelope `AlignEnv` of `Thm/C01.lean` (`custom_i32_correct`): gap penalties `<= 0`,
/// clip penalties in `[MIN_SCORE, 0]`, table entries any `i32` of absolute value `<= 2^30`; the size condition
/// `2 (m + n + 1) B < -MIN_SCORE` is checked per call by `in_envelope`.
pub fn parse_sc_env(sc_tok: &str, w_tok: &str) -> Result<ScSpec, String> {
    let p: Vec<&str> = sc_tok.split(':').collect();
    if p.len() != 7 || p[0] != "sc" {
        return Err("sc token".into());
    }
    let go: i32 = parse(p[1])?;
    let ge: i32 = parse(p[2])?;
    if go > 0 || ge > 0 || go < -(1 << 30) || ge < -(1 << 30) {
        return Err("gap penalties outside [-2^30,0]".into());
    }
    let mut clips = [0i32; 4];
    for k in 0..4 {
        let c: i32 = if p[3 + k] == "min" { MIN_SCORE } else { parse(p[3 + k])? };
        if !(MIN_SCORE..=0).contains(&c) {
            return Err("clip penalty outside [MIN_SCORE,0]".into());
        }
        clips[k] = c;
    }
    let q: Vec<&str> = w_tok.split(':').collect();
    if q.len() != 3 || q[0] != "w" {
        return Err("w token".into());
    }
    let alpha = unhex(q[1])?;
    if alpha.is_empty() || alpha.len() > 8 {
        return Err("alphabet size".into());
    }
    let mut idx = vec![usize::MAX; 256];
    for (i, &c) in alpha.iter().enumerate() {
        if idx[c as usize] != usize::MAX {
            return Err("alphabet repeats a symbol".into());
        }
        idx[c as usize] = i;
    }
    let tab: Vec<i32> = parse_list(q[2], ',')?;
    if tab.len() != alpha.len() * alpha.len() || tab.iter().any(|v| (*v as i64).abs() > (1 << 30)) {
        return Err("table".into());
    }
    Ok(ScSpec { go, ge, clips, f: TabFn { alpha, idx, tab } })
}

/// the bound `B` of `AlignEnv`: largest absolute value of a table entry, of `gap_open`, `gap_extend`; at least 1
pub fn env_bound(sc: &ScSpec) -> i64 {
    let mut b: i64 = 1;
    for v in sc.f.tab.iter().chain([sc.go, sc.ge].iter()) {
        b = b.max((*v as i64).abs());
    }
    b
}

/// largest `B` with `2 (m + n + 1) B < -MIN_SCORE`
pub fn env_max_bound(m: usize, n: usize) -> i64 {
    (-(MIN_SCORE as i64) - 1) / (2 * (m + n + 1) as i64)
}

/// `AlignEnv` of `Thm/C01.lean` for a call on sequences of lengths `m`, `n` (with `B` taken over the whole table)
pub fn in_envelope(sc: &ScSpec, m: usize, n: usize) -> bool {
    env_bound(sc) <= env_max_bound(m, n)
}

pub fn ops_string(ops: &[AlignmentOperation]) -> String {
    if ops.is_empty() {
        return "-".into();
    }
    let mut s = String::new();
    for o in ops {
        match o {
            AlignmentOperation::Match => s.push('M'),
            AlignmentOperation::Subst => s.push('S'),
            AlignmentOperation::Ins => s.push('I'),
            AlignmentOperation::Del => s.push('D'),
            AlignmentOperation::Xclip(n) => s.push_str(&format!("X{}", n)),
            AlignmentOperation::Yclip(n) => s.push_str(&format!("Y{}", n)),
        }
    }
    s
}

pub fn aln_string(a: &Alignment) -> String {
    format!(
        "s:{},x:{}:{}:{},y:{}:{}:{},o:{}",
        a.score,
        a.xstart,
        a.xend,
        a.xlen,
        a.ystart,
        a.yend,
        a.ylen,
        ops_string(&a.operations)
    )
}

// ------------------------------------------------------------------------------------------ generators

pub fn gen_alphabet(rng: &mut Rng) -> Vec<u8> {
    match rng.below(6) {
        0 => vec![b'A'],
        1 | 2 | 3 => vec![b'A', b'C'],
        4 => vec![b'A', b'C', b'G'],
        _ => vec![0, 255, b'A'],
    }
}

pub fn gen_clip(rng: &mut Rng) -> i32 {
    match rng.below(10) {
        0 | 1 | 2 => MIN_SCORE,
        3 | 4 => 0,
        5 => -1,
        _ => -(rng.range(1, 8) as i32),
    }
}

pub fn gen_table(rng: &mut Rng, k: usize) -> Vec<i32> {
    let style = rng.below(4);
    let mut t = vec![0i32; k * k];
    for i in 0..k {
        for j in 0..k {
            t[i * k + j] = match style {
                // classical: positive match, negative mismatch (constant)
                0 => {
                    if i == j {
                        1
                    } else {
                        -1
                    }
                }
                // classical with random magnitudes
                1 => {
                    if i == j {
                        rng.range(0, 5) as i32
                    } else {
                        rng.range(-5, 0) as i32
                    }
                }
                // arbitrary (asymmetric, positive mismatches, negative matches)
                _ => rng.range(-4, 4) as i32,
            };
        }
    }
    t
}

pub fn gen_scspec(rng: &mut Rng) -> ScSpec {
    let alpha = gen_alphabet(rng);
    let k = alpha.len();
    let tab = gen_table(rng, k);
    let go = -(rng.below(7) as i32);
    let ge = -(rng.below(5) as i32);
    let clips = match rng.below(6) {
        // symmetric per sequence
        0 => {
            let (a, b) = (gen_clip(rng), gen_clip(rng));
            [a, a, b, b]
        }
        // one end free only
        1 => {
            let mut c = [MIN_SCORE; 4];
            c[rng.below(4)] = -(rng.below(4) as i32);
            c
        }
        _ => [gen_clip(rng), gen_clip(rng), gen_clip(rng), gen_clip(rng)],
    };
    let mut idx = vec![usize::MAX; 256];
    for (i, &c) in alpha.iter().enumerate() {
        idx[c as usize] = i;
    }
    ScSpec { go, ge, clips, f: TabFn { alpha, idx, tab } }
}

/// a pair of sequences of length <= maxlen: unrelated, mutated copies, with a shared core and foreign
/// flanks (so clipping pays), empty, periodic
pub fn gen_pair(rng: &mut Rng, alpha: &[u8], maxlen: usize) -> (Vec<u8>, Vec<u8>) {
    let len = |rng: &mut Rng| rng.below(maxlen + 1);
    let mut p = match rng.below(10) {
        0 => {
            // one or both empty
            let n = len(rng);
            let s = rng.seq(alpha, n);
            match rng.below(3) {
                0 => (vec![], s),
                1 => (s, vec![]),
                _ => (vec![], vec![]),
            }
        }
        1 | 2 | 3 => {
            let n = len(rng);
            let x = rng.seq(alpha, n);
            let y = rng.mutate(&x, alpha, 25);
            (x, y)
        }
        4 | 5 => {
            // shared core, independent flanks
            let c = rng.below(maxlen / 2 + 1);
            let core = rng.seq(alpha, c);
            let mut mk = |rng: &mut Rng| {
                let room = maxlen - c;
                let a = rng.below(room / 2 + 1);
                let b = rng.below(room / 2 + 1);
                let mut s = rng.seq(alpha, a);
                s.extend_from_slice(&core);
                s.extend(rng.seq(alpha, b));
                s
            };
            let x = mk(rng);
            let y = mk(rng);
            (x, y)
        }
        6 => {
            // periodic
            let per = 1 + rng.below(2);
            let w = rng.seq(alpha, per);
            let (n1, n2) = (len(rng), len(rng));
            ((0..n1).map(|i| w[i % per]).collect(), (0..n2).map(|i| w[(i + 1) % per]).collect())
        }
        _ => {
            let (n1, n2) = (len(rng), len(rng));
            (rng.seq(alpha, n1), rng.seq(alpha, n2))
        }
    };
    p.0.truncate(maxlen);
    p.1.truncate(maxlen);
    if rng.chance(1, 2) {
        p
    } else {
        (p.1, p.0)
    }
}

pub fn enum_seqs(alpha: &[u8], maxlen: usize) -> Vec<Vec<u8>> {
    let mut out = vec![];
    let mut cur: Vec<Vec<u8>> = vec![vec![]];
    for _ in 0..=maxlen {
        out.extend(cur.iter().cloned());
        let mut nxt = vec![];
        for s in &cur {
            for &a in alpha {
                let mut t = s.clone();
                t.push(a);
                nxt.push(t);
            }
        }
        cur = nxt;
    }
    out
}
