//! C05 — FM-index backward search.
//!
//! `c05 <s1>/<s2>/… a:<alphabet hex> k:<occ rate> s:<sa sampling rate> m:<o|b|a> <p1>/<p2>/…`
//!   text = s1 $ s2 $ … sn $   (every sequence is followed by the sentinel `$`)
//!   m: how the components are handed to `FMIndex::new` / `SuffixArray::sample`
//!      o = owned `Vec`s, b = borrowed `&`, a = shared `Arc`
//! observation: `<suffix array> <r1>/<r2>/…`, one `r` per pattern:
//!   `A`                                     Absent
//!   `C:<lo>:<hi>:<occ full>:<occ sampled>`  Complete(Interval{lo,hi}); `Interval::occ` through the full array and
//!   `P:<lo>:<hi>:<l>:<occ full>:<occ sampled>`   through the `SampledSuffixArray`; `!` when the interval is not
//!                                           inside the array (then `occ` is not called: it would panic)
use crate::util::*;
use bio::alphabets::Alphabet;
use bio::data_structures::bwt::{bwt, less, Less, Occ, BWT};
use bio::data_structures::fmindex::{BackwardSearchResult, FMIndex, FMIndexable, Interval};
use bio::data_structures::suffix_array::{suffix_array, SuffixArray};
use std::sync::Arc;

pub const SENTINEL: u8 = b'$';

pub fn text_of(seqs: &[Vec<u8>]) -> Vec<u8> {
    let mut t = Vec::new();
    for s in seqs {
        t.extend_from_slice(s);
        t.push(SENTINEL);
    }
    t
}

fn occ_str<SA: SuffixArray>(iv: &Interval, sa: &SA) -> String {
    if iv.lower > iv.upper || iv.upper > sa.len() {
        "!".to_string()
    } else {
        join(&iv.occ(sa), ",")
    }
}

fn show<SA: SuffixArray, SB: SuffixArray>(r: BackwardSearchResult, full: &SA, samp: &SB) -> String {
    match r {
        BackwardSearchResult::Absent => "A".to_string(),
        BackwardSearchResult::Complete(iv) => {
            format!("C:{}:{}:{}:{}", iv.lower, iv.upper, occ_str(&iv, full), occ_str(&iv, samp))
        }
        BackwardSearchResult::Partial(iv, l) => {
            format!("P:{}:{}:{}:{}:{}", iv.lower, iv.upper, l, occ_str(&iv, full), occ_str(&iv, samp))
        }
    }
}

pub fn exec(toks: &[&str]) -> Result<String, String> {
    if toks.len() != 6 {
        return Err("arity".into());
    }
    let seqs: Vec<Vec<u8>> = split_ne(toks[0], '/').into_iter().map(unhex).collect::<Result<_, _>>()?;
    let alpha = unhex(kv(toks[1], "a")?)?;
    let k: u32 = parse(kv(toks[2], "k")?)?;
    let s: usize = parse(kv(toks[3], "s")?)?;
    let mode = kv(toks[4], "m")?;
    let pats: Vec<Vec<u8>> = split_ne(toks[5], '/').into_iter().map(unhex).collect::<Result<_, _>>()?;
    if alpha.is_empty() || alpha.iter().any(|&c| c <= SENTINEL) {
        return Err("alphabet must be non-empty and above the sentinel".into());
    }
    if seqs.iter().flatten().any(|c| !alpha.contains(c)) {
        return Err("text symbol outside the alphabet".into());
    }
    if pats.iter().any(|p| p.is_empty() || p.iter().any(|c| !alpha.contains(c))) {
        return Err("pattern empty or outside the alphabet".into());
    }
    if k == 0 || s == 0 {
        return Err("rates must be positive".into());
    }
    let text = text_of(&seqs);
    let alphabet = Alphabet::new(&alpha);
    let sa = suffix_array(&text);
    let bw: BWT = bwt(&text, &sa);
    let le: Less = less(&bw, &alphabet);
    let oc = Occ::new(&bw, k, &alphabet);
    let mut outs = Vec::with_capacity(pats.len());
    match mode {
        "b" => {
            let fm = FMIndex::new(&bw, &le, &oc);
            let samp = sa.sample(&text, &bw, &le, &oc, s);
            for p in &pats {
                outs.push(show(fm.backward_search(p.iter()), &sa, &samp));
            }
        }
        "o" => {
            let fm = FMIndex::new(bw.clone(), le.clone(), oc.clone());
            let samp = sa.sample(&text, bw.clone(), le.clone(), oc.clone(), s);
            for p in &pats {
                outs.push(show(fm.backward_search(p.iter()), &sa, &samp));
            }
        }
        "a" => {
            let (ab, al, ao) = (Arc::new(bw), Arc::new(le), Arc::new(oc));
            let fm = FMIndex::new(ab.clone(), al.clone(), ao.clone());
            let samp = sa.sample(&text, ab.clone(), al.clone(), ao.clone(), s);
            for p in &pats {
                outs.push(show(fm.backward_search(p.iter()), &sa, &samp));
            }
        }
        _ => return Err("mode".into()),
    }
    Ok(format!("{} {}", join(&sa, ","), outs.join("/")))
}

// ------------------------------------------------------------------------------------------------ generator

fn alphabet(rng: &mut Rng) -> Vec<u8> {
    match rng.below(8) {
        0 => b"a".to_vec(),
        1 | 2 => b"ab".to_vec(),
        3 => b"abc".to_vec(),
        4 => b"ACGT".to_vec(),
        5 => b"ACGTN".to_vec(),
        6 => vec![b'%', b'A', 0x7f, 0xff], // the byte right above the sentinel and the largest bytes
        _ => b"abcde".to_vec(),
    }
}

/// one sequence: random, a power of a short word, a Fibonacci word, or all-equal
fn sequence(rng: &mut Rng, alpha: &[u8], maxlen: usize) -> Vec<u8> {
    let len = rng.below(maxlen + 1);
    match rng.below(6) {
        0 => {
            let per = 1 + rng.below(3);
            let w = rng.seq(alpha, per);
            (0..len).map(|i| w[i % per]).collect()
        }
        1 => {
            let (a, b) = (*rng.pick(alpha), *rng.pick(alpha));
            let (mut x, mut y) = (vec![a], vec![a, b]);
            while y.len() < len {
                let mut z = y.clone();
                z.extend_from_slice(&x);
                x = y;
                y = z;
            }
            y.truncate(len);
            y
        }
        2 => vec![*rng.pick(alpha); len],
        _ => rng.seq(alpha, len),
    }
}

const RATES: [u32; 14] = [1, 2, 3, 5, 8, 63, 64, 65, 66, 100, 127, 128, 129, 1000];

fn patterns(rng: &mut Rng, alpha: &[u8], seqs: &[Vec<u8>], text: &[u8], n: usize) -> Vec<Vec<u8>> {
    let nonempty: Vec<&Vec<u8>> = seqs.iter().filter(|s| !s.is_empty()).collect();
    let mut pats = Vec::new();
    let used: Vec<u8> = alpha.iter().copied().filter(|c| text.contains(c)).collect();
    let unused: Vec<u8> = alpha.iter().copied().filter(|c| !text.contains(c)).collect();
    while pats.len() < n {
        let kind = rng.below(12);
        let sub = |rng: &mut Rng| -> Vec<u8> {
            if nonempty.is_empty() {
                return vec![*rng.pick(alpha)];
            }
            let s = *rng.pick(&nonempty);
            let i = rng.below(s.len());
            let cap = if rng.chance(1, 4) { 40 } else { 6 };
            let l = 1 + rng.below((s.len() - i).min(cap));
            s[i..i + l].to_vec()
        };
        let p: Vec<u8> = match kind {
            // substring of one sequence
            0 | 1 | 2 => sub(rng),
            // a whole sequence, a prefix, a suffix (next to the sentinels)
            3 => {
                if nonempty.is_empty() {
                    sub(rng)
                } else {
                    let s = *rng.pick(&nonempty);
                    match rng.below(3) {
                        0 => s.clone(),
                        1 => s[..1 + rng.below(s.len())].to_vec(),
                        _ => s[rng.below(s.len())..].to_vec(),
                    }
                }
            }
            // substring with the first symbol changed: proper suffix occurs, the whole (mostly) does not
            4 | 5 | 6 => {
                let mut p = sub(rng);
                if rng.chance(1, 2) {
                    let c = *rng.pick(alpha);
                    p.insert(0, c);
                } else {
                    p[0] = *rng.pick(alpha);
                }
                if rng.chance(1, 4) {
                    let extra = 1 + rng.below(3);
                    let mut q = rng.seq(alpha, extra);
                    q.extend_from_slice(&p);
                    p = q;
                }
                p
            }
            // would match only across a sentinel: end of one sequence followed by the start of another
            7 => {
                if nonempty.len() < 1 {
                    sub(rng)
                } else {
                    let a = *rng.pick(&nonempty);
                    let b = *rng.pick(&nonempty);
                    let mut p = a[a.len() - 1 - rng.below(a.len().min(3))..].to_vec();
                    p.extend_from_slice(&b[..1 + rng.below(b.len().min(3))]);
                    p
                }
            }
            // longer than the text
            8 => {
                let l = text.len() + rng.below(4);
                if rng.chance(1, 2) && !nonempty.is_empty() {
                    let s = *rng.pick(&nonempty);
                    (0..l.max(1)).map(|i| s[i % s.len()]).collect()
                } else {
                    rng.seq(alpha, l.max(1))
                }
            }
            // symbol of the alphabet that is absent from the text: last (Absent), first or middle (Partial)
            9 => {
                if unused.is_empty() {
                    sub(rng)
                } else {
                    let c = *rng.pick(&unused);
                    let mut p = sub(rng);
                    match rng.below(4) {
                        0 => p.push(c),
                        1 => p.insert(0, c),
                        2 => {
                            let i = rng.below(p.len());
                            p[i] = c
                        }
                        _ => p = vec![c],
                    }
                    p
                }
            }
            // single symbols (every one of the alphabet over time)
            10 => {
                let from_all = used.is_empty() || rng.chance(1, 3);
                vec![*rng.pick(if from_all { alpha } else { &used })]
            }
            _ => {
                let l = 1 + rng.below(5);
                rng.seq(alpha, l)
            }
        };
        if !p.is_empty() {
            pats.push(p);
        }
    }
    pats
}

fn case(rng: &mut Rng, long: bool, npat: usize, mode: &str) -> String {
    let alpha = alphabet(rng);
    let nseq = 1 + rng.below(6);
    let maxlen = if long { 60 + rng.below(200) } else { rng.below(31) };
    let seqs: Vec<Vec<u8>> = (0..nseq).map(|_| sequence(rng, &alpha, maxlen)).collect();
    let text = text_of(&seqs);
    let k = if rng.chance(1, 10) { 2 * text.len() as u32 } else { *rng.pick(&RATES) };
    let s = if rng.chance(1, 8) { *rng.pick(&[8usize, 16, 1000]) } else { 1 + rng.below(5) };
    let pats = patterns(rng, &alpha, &seqs, &text, npat);
    format!(
        "{} a:{} k:{} s:{} m:{} {}",
        seqs.iter().map(|s| hex(s)).collect::<Vec<_>>().join("/"),
        hex(&alpha),
        k,
        s,
        mode,
        pats.iter().map(|p| hex(p)).collect::<Vec<_>>().join("/")
    )
}

fn enum_seqs(alpha: &[u8], maxlen: usize, minlen: usize) -> Vec<Vec<u8>> {
    let mut out = vec![];
    let mut cur: Vec<Vec<u8>> = vec![vec![]];
    for l in 0..=maxlen {
        if l >= minlen {
            out.extend(cur.iter().cloned());
        }
        let mut nxt = vec![];
        for s in &cur {
            for &a in alpha {
                let mut t = s.clone();
                t.push(a);
                nxt.push(t);
            }
        }
        cur = nxt;
    }
    out
}

pub fn gen(tier: &str, rng: &mut Rng, out: &mut Vec<String>) {
    let thorough = tier == "thorough";
    let (n, npat) = if thorough { (8_000, 20) } else { (5_000, 12) };
    let modes = ["b", "o", "a"];
    for i in 0..n {
        // every fourth text is long enough for several Occ checkpoints on each side of the k > 64 switch
        out.push(case(rng, i % 4 == 3, npat, modes[i % 3]));
    }
    if thorough {
        // exhaustive small scope: all texts over {A,C} ∪ {$} of length ≤ 7 ending in `$` × all patterns of length ≤ 4
        let pats = enum_seqs(b"AC", 4, 1);
        let pl = pats.iter().map(|p| hex(p)).collect::<Vec<_>>().join("/");
        let bodies = enum_seqs(b"AC$", 6, 0);
        for (j, b) in bodies.iter().enumerate() {
            let mut t = b.clone();
            t.push(b'$');
            let seqs: Vec<String> = t[..t.len() - 1].split(|&c| c == b'$').map(|s| hex(s)).collect();
            let k = RATES[j % 5];
            out.push(format!("{} a:4143 k:{} s:{} m:{} {}", seqs.join("/"), k, 1 + j % 3, modes[j % 3], pl));
        }
    }
}
