//! C01 — pairwise::Aligner::{custom,global,semiglobal,local}: one line = one history of calls on ONE aligner.
//!
//! `const => min:<MIN_SCORE>`
//! `cap:<m>:<n>|cap:new sc:<go>:<ge>:<xp>:<xs>:<yp>:<ys> w:<alphabet hex>:<table> <mode>,<x>,<y>;… =>
//!      s:<score>,x:<xs>:<xe>:<xlen>,y:<ys>:<ye>:<ylen>,o:<ops>,h:same|differs;…`
//! `h:` compares the whole `Alignment` value with the one a fresh aligner returns for the same call.
use crate::util::*;
use bio::alignment::pairwise::{Aligner, MIN_SCORE};
use bio::alignment::Alignment;

#[path = "align_util.rs"]
pub mod align_util;
use align_util::*;

const MODES: [&str; 4] = ["custom", "global", "semiglobal", "local"];

fn call(al: &mut Aligner<TabFn>, mode: &str, x: &[u8], y: &[u8]) -> Result<Alignment, String> {
    Ok(match mode {
        "custom" => al.custom(x, y),
        "global" => al.global(x, y),
        "semiglobal" => al.semiglobal(x, y),
        "local" => al.local(x, y),
        _ => return Err("mode".into()),
    })
}

fn gen_cap(rng: &mut Rng, maxlen: usize) -> String {
    match rng.below(6) {
        0 => "cap:0:0".into(),
        1 => "cap:new".into(),
        2 => format!("cap:{}:{}", maxlen * 4, maxlen * 4),
        3 => format!("cap:{}:0", rng.below(maxlen + 1)),
        _ => format!("cap:{}:{}", rng.below(maxlen + 1), rng.below(maxlen + 1)),
    }
}

fn gen_history(rng: &mut Rng, maxlen: usize, ncalls: usize, out: &mut Vec<String>) {
    let sc = gen_scspec(rng);
    let mut calls = vec![];
    for _ in 0..ncalls {
        let mode = if rng.chance(1, 2) { "custom" } else { MODES[rng.below(4)] };
        let (x, y) = gen_pair(rng, &sc.f.alpha, maxlen);
        calls.push(format!("{},{},{}", mode, hex(&x), hex(&y)));
    }
    out.push(format!("{} {} {}", gen_cap(rng, maxlen), sc.tokens(), calls.join(";")));
}

/// a clip penalty for the envelope-edge scenario: anything in `[MIN_SCORE, 0]` is inside `AlignEnv`
fn gen_clip_edge(rng: &mut Rng, b: i64) -> i32 {
    match rng.below(12) {
        0 | 1 | 2 => MIN_SCORE,
        3 | 4 => 0,
        5 | 6 => -(b as i32),
        7 => MIN_SCORE + 1,
        8 => MIN_SCORE / 2,
        9 => -1,
        10 => -(rng.range(0, b) as i32),
        _ => rng.range(MIN_SCORE as i64, 0) as i32,
    }
}

/// "envelope edge": the sequences are drawn first, then scores of magnitude up to the largest `B` that
/// `AlignEnv` (`2 (m + n + 1) B < -MIN_SCORE`, `Thm/C01.lean` `custom_i32_correct`) allows for the longest call of
/// the history — so the `i32` computation is sampled next to the proven bound, not only for |scores| <= 1024.
fn gen_history_edge(rng: &mut Rng, maxlen: usize, ncalls: usize, out: &mut Vec<String>) {
    let alpha = gen_alphabet(rng);
    let k = alpha.len();
    let mut calls = vec![];
    let mut bmax = i64::MAX;
    for _ in 0..ncalls {
        let mode = if rng.chance(1, 2) { "custom" } else { MODES[rng.below(4)] };
        let (x, y) = gen_pair(rng, &alpha, maxlen);
        bmax = bmax.min(env_max_bound(x.len(), y.len()));
        calls.push(format!("{},{},{}", mode, hex(&x), hex(&y)));
    }
    // exactly at the bound, one below, half of it, a random magnitude above the old fixed envelope
    let b = match rng.below(6) {
        0 | 1 | 2 => bmax,
        3 => bmax - 1,
        4 => bmax / 2,
        _ => rng.range(1025.min(bmax), bmax),
    };
    let big = |rng: &mut Rng| -> i32 {
        (match rng.below(4) {
            0 | 1 => b,
            2 => b - rng.range(0, 3.min(b)),
            _ => rng.range(0, b),
        }) as i32
    };
    let style = rng.below(4);
    let mut tab = vec![0i32; k * k];
    for i in 0..k {
        for j in 0..k {
            tab[i * k + j] = match style {
                0 => if i == j { b as i32 } else { -(b as i32) },
                1 => if i == j { big(rng) } else { -big(rng) },
                // arbitrary signs (negative matches, positive mismatches)
                _ => if rng.chance(1, 2) { big(rng) } else { -big(rng) },
            };
        }
    }
    let gap = |rng: &mut Rng| -> i32 {
        match rng.below(5) {
            0 | 1 => -(b as i32),
            2 => 0,
            3 => -(rng.range(0, 6) as i32),
            _ => -(rng.range(0, b) as i32),
        }
    };
    let (go, ge) = (gap(rng), gap(rng));
    let clips = match rng.below(4) {
        0 => {
            let (a, c) = (gen_clip_edge(rng, b), gen_clip_edge(rng, b));
            [a, a, c, c]
        }
        _ => [gen_clip_edge(rng, b), gen_clip_edge(rng, b), gen_clip_edge(rng, b), gen_clip_edge(rng, b)],
    };
    let mut idx = vec![usize::MAX; 256];
    for (i, &c) in alpha.iter().enumerate() {
        idx[c as usize] = i;
    }
    let sc = ScSpec { go, ge, clips, f: TabFn { alpha, idx, tab } };
    out.push(format!("{} {} {}", gen_cap(rng, maxlen), sc.tokens(), calls.join(";")));
}

pub fn gen(tier: &str, rng: &mut Rng, out: &mut Vec<String>) {
    let thorough = tier == "thorough";
    let nhist = if thorough { 40000 } else { 6000 };
    for i in 0..nhist {
        // mostly short (many ties, many equal sub-ranges), one history in eight longer
        let maxlen = if thorough { [6, 8, 10, 12, 7, 9, 11, 18][i % 8] } else { [5, 7, 9, 10, 6, 8, 10, 16][i % 8] };
        let ncalls = 1 + rng.below(9);
        gen_history(rng, maxlen, ncalls, out);
    }
    // envelope edge (appended, so that the histories above are those of the earlier sessions)
    let nedge = if thorough { 6000 } else { 1000 };
    for i in 0..nedge {
        let maxlen = [5, 7, 9, 10, 6, 8, 12, 16][i % 8];
        let ncalls = 1 + rng.below(5);
        gen_history_edge(rng, maxlen, ncalls, out);
    }
    if thorough {
        // exhaustive small scope: all x, y over {A,C} with |x|,|y| <= 4, 24 scoring schemes, the four modes
        // in rotation; 31 calls (one x against every y) per history
        let seqs = enum_seqs(b"AC", 4);
        let mut schemes = vec![];
        for &(go, ge) in &[(-2, -1), (0, -1), (-3, 0)] {
            for &clips in &[
                [MIN_SCORE; 4],
                [0, 0, 0, 0],
                [-1, MIN_SCORE, 0, -2],
                [MIN_SCORE, -1, -2, 0],
            ] {
                for &tab in &[[1, -1, -1, 1], [2, 1, -3, 0]] {
                    schemes.push((go, ge, clips, tab));
                }
            }
        }
        let mut rot = 0usize;
        for (go, ge, clips, tab) in schemes {
            for x in &seqs {
                let calls: Vec<String> = seqs
                    .iter()
                    .map(|y| {
                        rot += 1;
                        let mode = if rot % 2 == 0 { "custom" } else { MODES[(rot / 2) % 4] };
                        format!("{},{},{}", mode, hex(x), hex(y))
                    })
                    .collect();
                out.push(format!(
                    "cap:{}:{} sc:{}:{}:{}:{}:{}:{} w:4143:{} {}",
                    rot % 5,
                    rot % 3,
                    go,
                    ge,
                    clips[0],
                    clips[1],
                    clips[2],
                    clips[3],
                    join(&tab, ","),
                    calls.join(";")
                ));
            }
        }
    }
}

pub fn exec(toks: &[&str]) -> Result<String, String> {
    if toks == ["const"] {
        return Ok(format!("min:{}", MIN_SCORE));
    }
    if toks.len() != 4 {
        return Err("arity".into());
    }
    let sc = parse_sc_env(toks[1], toks[2])?;
    let mut calls: Vec<(&str, Vec<u8>, Vec<u8>)> = vec![];
    for c in split_ne(toks[3], ';') {
        let p: Vec<&str> = c.split(',').collect();
        if p.len() != 3 || !MODES.contains(&p[0]) {
            return Err("call".into());
        }
        let (x, y) = (unhex(p[1])?, unhex(p[2])?);
        if x.len() > 64 || y.len() > 64 || !sc.in_alphabet(&x) || !sc.in_alphabet(&y) {
            return Err("sequence outside the envelope".into());
        }
        // `AlignEnv` (Thm/C01.lean): 2 (m + n + 1) B < -MIN_SCORE
        if !in_envelope(&sc, x.len(), y.len()) {
            return Err("call outside the AlignEnv envelope".into());
        }
        calls.push((p[0], x, y));
    }
    let mut al = match toks[0] {
        "cap:new" => Aligner::with_scoring(sc.scoring()),
        t => {
            let p: Vec<&str> = t.split(':').collect();
            if p.len() != 3 || p[0] != "cap" {
                return Err("cap".into());
            }
            let (m, n): (usize, usize) = (parse(p[1])?, parse(p[2])?);
            if m > 4096 || n > 4096 {
                return Err("cap too large".into());
            }
            Aligner::with_capacity_and_scoring(m, n, sc.scoring())
        }
    };
    let mut outs = vec![];
    for (mode, x, y) in &calls {
        let a = call(&mut al, mode, x, y)?;
        let mut fresh = Aligner::with_capacity_and_scoring(x.len(), y.len(), sc.scoring());
        let b = call(&mut fresh, mode, x, y)?;
        outs.push(format!("{},h:{}", aln_string(&a), if a == b { "same" } else { "differs" }));
    }
    Ok(outs.join(";"))
}
