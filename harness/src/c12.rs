//! C12 — indexed FASTA random access.
//!
//! `c12 h <file hex> <fai hex> cuts:<n1,n2,…> sched:<s1,s2,…> <op>;<op>;… => <run>|<run>|…`
//!
//! One case = one FASTA file + its `.fai` text (computed here, independently of rust-bio) + a history of
//! operations on ONE `IndexedReader`.  The history is run once per entry of `cuts` on a fresh reader over
//! `file[..n]` (n = file length → untruncated).  Below the reader's internal `BufReader` sits a `Fragmenting`
//! reader whose `read()` sizes follow `sched` cyclically, restarting at every seek.
//!
//! ops (fields `:`-separated):
//!   `fn:<name hex>:<start>:<stop>:<rd>`   fetch by name        `fr:<rid>:<start>:<stop>:<rd>`  fetch_by_rid
//!   `fa:<name hex>:<rd>`                  fetch_all            `far:<rid>:<rd>`                fetch_all_by_rid
//!   `rd:<rd>`                             read without a (new) fetch
//! `<rd>` = `r` (`read` into a buffer) | `i` (`read_iter`, drained) | `p<k>` (`read_iter`, k items taken, then dropped)
//!
//! observation per op: `ok:<hex>` | `err:<class>` | (iterator) `err:<class>:<hex of the bytes yielded before>`
use crate::util::*;
use bio::io::fasta::IndexedReader;
use std::io::{self, Cursor};

#[path = "fragio.rs"]
mod fragio;
use fragio::Fragmenting;

fn err_class(e: &io::Error) -> String {
    let m = e.to_string();
    let c = if e.kind() == io::ErrorKind::UnexpectedEof || m.contains("truncated") {
        "eof"
    } else if m.contains("Unknown sequence name") {
        "name"
    } else if m.contains("Invalid record index") {
        "rid"
    } else if m.contains("out of bounds") {
        "oob"
    } else if m.contains("Invalid query interval") {
        "interval"
    } else if m.contains("No sequence fetched") {
        "nofetch"
    } else {
        "other"
    };
    c.to_string()
}

type Rdr = IndexedReader<Fragmenting<Cursor<Vec<u8>>>>;

fn do_read(r: &mut Rdr, rd: &str) -> Result<String, String> {
    if rd == "r" {
        let mut seq = vec![0xEEu8; 3]; // stale content must be cleared by `read`
        return Ok(match r.read(&mut seq) {
            Ok(()) => format!("ok:{}", hex(&seq)),
            Err(e) => format!("err:{}", err_class(&e)),
        });
    }
    let limit: Option<usize> = if rd == "i" {
        None
    } else if let Some(k) = rd.strip_prefix('p') {
        Some(parse::<usize>(k)?)
    } else {
        return Err(format!("bad read mode {}", rd));
    };
    Ok(match r.read_iter() {
        Err(e) => format!("err:{}:-", err_class(&e)),
        Ok(it) => {
            let mut got: Vec<u8> = vec![];
            let mut err: Option<String> = None;
            let mut n = 0usize;
            for item in it {
                if let Some(l) = limit {
                    if n >= l {
                        break;
                    }
                }
                n += 1;
                match item {
                    Ok(b) => got.push(b),
                    Err(e) => {
                        // keep draining: after an error the iterator must end (a second item would be a defect)
                        if err.is_none() {
                            err = Some(err_class(&e));
                        } else {
                            err = Some("repeated".into());
                        }
                    }
                }
                if n > (1 << 26) {
                    err = Some("endless".into());
                    break;
                }
            }
            match err {
                None => format!("ok:{}", hex(&got)),
                Some(c) => format!("err:{}:{}", c, hex(&got)),
            }
        }
    })
}

fn run_ops(file: &[u8], fai: &[u8], sched: &[usize], ops: &[&str]) -> Result<String, String> {
    let rd = Fragmenting::new(Cursor::new(file.to_vec()), sched.to_vec(), true);
    let mut r = match IndexedReader::new(rd, Cursor::new(fai.to_vec())) {
        Ok(r) => r,
        Err(_) => return Ok("err:index".into()),
    };
    let mut outs: Vec<String> = vec![];
    for op in ops {
        let f: Vec<&str> = op.split(':').collect();
        let name = |h: &str| -> Result<String, String> {
            String::from_utf8(unhex(h)?).map_err(|_| "name not utf8".to_string())
        };
        let (fetched, rdm): (io::Result<()>, &str) = match (f[0], f.len()) {
            ("fn", 5) => (r.fetch(&name(f[1])?, parse::<u64>(f[2])?, parse::<u64>(f[3])?), f[4]),
            ("fr", 5) => (r.fetch_by_rid(parse::<usize>(f[1])?, parse::<u64>(f[2])?, parse::<u64>(f[3])?), f[4]),
            ("fa", 3) => (r.fetch_all(&name(f[1])?), f[2]),
            ("far", 3) => (r.fetch_all_by_rid(parse::<usize>(f[1])?), f[2]),
            ("rd", 2) => (Ok(()), f[1]),
            _ => return Err(format!("bad op {}", op)),
        };
        match fetched {
            Err(e) => {
                // validate the read mode all the same so that malformed lines are rejected uniformly
                if !(rdm == "r" || rdm == "i" || (rdm.starts_with('p') && rdm[1..].parse::<usize>().is_ok())) {
                    return Err(format!("bad read mode {}", rdm));
                }
                outs.push(format!("err:{}", err_class(&e)))
            }
            Ok(()) => outs.push(do_read(&mut r, rdm)?),
        }
    }
    Ok(join(&outs, ";"))
}

pub fn exec(toks: &[&str]) -> Result<String, String> {
    if toks.len() != 6 || toks[0] != "h" {
        return Err("arity".into());
    }
    let toks = &toks[1..];
    let file = unhex(toks[0])?;
    let fai = unhex(toks[1])?;
    let cuts: Vec<usize> = parse_list(kv(toks[2], "cuts")?, ',')?;
    let sched: Vec<usize> = parse_list(kv(toks[3], "sched")?, ',')?;
    if cuts.is_empty() || sched.is_empty() || sched.iter().any(|&s| s == 0) {
        return Err("cuts/sched".into());
    }
    let ops: Vec<&str> = split_list(toks[4], ';');
    if ops.is_empty() {
        return Err("no ops".into());
    }
    let mut runs = vec![];
    for &c in &cuts {
        if c > file.len() {
            return Err("cut beyond file".into());
        }
        runs.push(run_ops(&file[..c], &fai, &sched, &ops)?);
    }
    Ok(runs.join("|"))
}

// ------------------------------------------------------------------------------------------------ generator

struct RecSpec {
    name: Vec<u8>,
    desc: Option<Vec<u8>>,
    seq: Vec<u8>,
    w: usize,
    crlf: bool,
}

struct Built {
    file: Vec<u8>,
    fai: Vec<u8>,
    /// per record: (len, offset, line_bases, line_bytes)
    idx: Vec<(usize, usize, usize, usize)>,
}

/// FASTA text + `.fai` text, computed without rust-bio.  `trail` = the last sequence line of the file keeps its
/// terminator; `fai_crlf` = the `.fai` lines end in CRLF.
fn build(recs: &[RecSpec], trail: bool, fai_crlf: bool) -> Built {
    let mut file = vec![];
    let mut fai = vec![];
    let mut idx = vec![];
    for (ri, r) in recs.iter().enumerate() {
        let eol: &[u8] = if r.crlf { b"\r\n" } else { b"\n" };
        file.push(b'>');
        file.extend_from_slice(&r.name);
        if let Some(d) = &r.desc {
            file.push(b' ');
            file.extend_from_slice(d);
        }
        file.extend_from_slice(eol);
        let off = file.len();
        let nlines = (r.seq.len() + r.w - 1) / r.w;
        for (li, ch) in r.seq.chunks(r.w).enumerate() {
            file.extend_from_slice(ch);
            let last = ri + 1 == recs.len() && li + 1 == nlines;
            if !last || trail {
                file.extend_from_slice(eol);
            }
        }
        idx.push((r.seq.len(), off, r.w, r.w + eol.len()));
        fai.extend_from_slice(&r.name);
        fai.extend_from_slice(format!("\t{}\t{}\t{}\t{}", r.seq.len(), off, r.w, r.w + eol.len()).as_bytes());
        fai.extend_from_slice(if fai_crlf { b"\r\n" } else { b"\n" });
    }
    Built { file, fai, idx }
}

const NAMECH: &[u8] = b"abcdefghijklmnopqrstuvwxyzABCDEFGHIJKLMNOPQRSTUVWXYZ0123456789_.|-";
const SEQCH: &[u8] = b"ACGTNacgtnRYKM*-";

fn gen_recs(rng: &mut Rng, big: bool) -> Vec<RecSpec> {
    let n = if big { 1 + rng.below(2) } else { 1 + rng.below(4) };
    let mut recs: Vec<RecSpec> = vec![];
    let file_crlf = rng.chance(1, 2);
    for i in 0..n {
        let mut name;
        loop {
            let l = 1 + rng.below(6);
            name = rng.seq(NAMECH, l);
            if !recs.iter().any(|r| r.name == name) {
                break;
            }
        }
        let w = match rng.below(8) {
            0 => 1,
            1 => 2,
            2 | 3 => 1 + rng.below(8),
            4 => *rng.pick(&[60usize, 70, 80]),
            // lines longer than the iterator's 512-base buffer (unwrapped / long-wrap FASTA): fill_buffer then asks
            // read_line for 512-base pieces of one line (seeded defect C12-5 needed width >= 513)
            5 => *rng.pick(&[511usize, 512, 513, 514, 600, 777, 1023, 1024, 1025, 1500]),
            _ => 1 + rng.below(80),
        };
        let len = if big && i == 0 {
            match rng.below(3) {
                0 => 8192 + rng.below(9000),
                1 => 3000 + rng.below(27000),
                _ => w * (8192 / w) + rng.below(3 * w + 1), // the buffer boundary near a line boundary
            }
        } else {
            match rng.below(10) {
                0 => 0,
                1 => w,                       // exactly one full line
                2 => w * (1 + rng.below(4)),  // last line full
                3 => w * (1 + rng.below(4)) + 1,
                4 => rng.below(w + 1),
                _ => rng.below(5 * w + 2).min(if w > 400 { 4 * w } else { 400 }),
            }
        };
        // a sequence in which neighbouring positions differ (a shifted slice is then never equal to the right one)
        let mut seq = Vec::with_capacity(len);
        for j in 0..len {
            let mut c = *rng.pick(SEQCH);
            if j > 0 && c == seq[j - 1] {
                c = SEQCH[(SEQCH.iter().position(|&x| x == c).unwrap() + 1) % SEQCH.len()];
            }
            seq.push(c);
        }
        let dl = 1 + rng.below(8);
        let desc = if rng.chance(1, 3) { Some(rng.seq(b"abc xyz=1", dl)) } else { None };
        let desc = desc.map(|d| {
            let mut d = d;
            while d.last() == Some(&b' ') {
                d.pop();
            }
            if d.is_empty() {
                d.push(b'd');
            }
            d
        });
        // terminators are uniform per record; mostly uniform per file
        let crlf = if rng.chance(1, 6) { !file_crlf } else { file_crlf };
        recs.push(RecSpec { name, desc, seq, w, crlf });
    }
    recs
}

fn gen_sched(rng: &mut Rng) -> Vec<usize> {
    match rng.below(8) {
        0 => vec![1],
        1 => vec![100000],
        2 => vec![1 + rng.below(3)],
        3 => (0..1 + rng.below(6)).map(|_| 1 + rng.below(4)).collect(),
        4 => (0..1 + rng.below(6)).map(|_| 1 + rng.below(40)).collect(),
        5 => vec![1, 100000, 2, 1, 1, 7],
        6 => (0..2 + rng.below(4)).map(|_| *rng.pick(&[1usize, 2, 13, 64, 511, 512, 513, 8191, 8192, 100000])).collect(),
        _ => vec![1 + rng.below(200)],
    }
}

fn rdmode(rng: &mut Rng, span: usize) -> String {
    match rng.below(7) {
        0 | 1 | 2 => "r".into(),
        3 | 4 | 5 => "i".into(),
        _ => format!("p{}", rng.below(span + 2)),
    }
}

fn offset_of(ix: &(usize, usize, usize, usize), i: usize) -> usize {
    ix.1 + (i / ix.2) * ix.3 + i % ix.2
}

/// a valid request on record `rid`
fn valid_op(rng: &mut Rng, recs: &[RecSpec], rid: usize, start: usize, stop: usize) -> String {
    let len = recs[rid].seq.len();
    let rd = rdmode(rng, stop - start);
    if start == 0 && stop == len && rng.chance(2, 3) {
        if rng.chance(1, 2) {
            format!("fa:{}:{}", hex(&recs[rid].name), rd)
        } else {
            format!("far:{}:{}", rid, rd)
        }
    } else if rng.chance(1, 2) {
        format!("fn:{}:{}:{}:{}", hex(&recs[rid].name), start, stop, rd)
    } else {
        format!("fr:{}:{}:{}:{}", rid, start, stop, rd)
    }
}

fn error_op(rng: &mut Rng, recs: &[RecSpec]) -> String {
    let rid = rng.below(recs.len());
    let len = recs[rid].seq.len() as u64;
    let rd = rdmode(rng, 3);
    match rng.below(7) {
        0 => {
            // unknown name: a proper prefix / extension / case change of a known one, or the empty name
            let mut nm = recs[rid].name.clone();
            match rng.below(4) {
                0 => nm.push(b'x'),
                1 => {
                    nm.pop();
                }
                2 => nm = vec![],
                _ => nm.insert(0, b'>'),
            }
            if recs.iter().any(|r| r.name == nm) {
                nm = b"no-such-sequence".to_vec();
            }
            if rng.chance(1, 2) {
                format!("fn:{}:0:{}:{}", hex(&nm), len.min(1), rd)
            } else {
                format!("fa:{}:{}", hex(&nm), rd)
            }
        }
        1 => {
            let bad = *rng.pick(&[recs.len(), recs.len() + 1, 1000, usize::MAX]);
            if rng.chance(1, 2) {
                format!("fr:{}:0:0:{}", bad, rd)
            } else {
                format!("far:{}:{}", bad, rd)
            }
        }
        2 => format!("fr:{}:0:{}:{}", rid, len + 1, rd),
        3 => format!("fn:{}:{}:{}:{}", hex(&recs[rid].name), len, *rng.pick(&[len + 1, len + 2, u64::MAX]), rd),
        4 => {
            // start > stop (both within the record when it is long enough)
            let a = 1 + rng.below(len as usize + 1) as u64;
            let b = rng.below(a as usize) as u64;
            format!("fr:{}:{}:{}:{}", rid, a, b, rd)
        }
        5 => format!("fn:{}:{}:{}:{}", hex(&recs[rid].name), len + 1, len + 1, rd),
        _ => format!("fr:{}:{}:{}:{}", rid, len + 3, len + 1, rd),
    }
}

fn span_for(rng: &mut Rng, r: &RecSpec) -> (usize, usize) {
    let len = r.seq.len();
    let w = r.w;
    if len == 0 {
        return (0, 0);
    }
    let (a, b) = match rng.below(10) {
        0 => (0, len),
        1 => {
            // line-aligned on one or both sides
            let a = (rng.below(len / w + 1) * w).min(len);
            let b = (a + rng.below(3) * w + rng.below(2) * rng.below(w + 1)).min(len);
            (a, b)
        }
        2 => {
            let a = rng.below(len + 1);
            (a, a) // empty interval, including start = stop = len
        }
        3 => {
            // ends just before / at / after a line end
            let l = 1 + rng.below(len / w + 1);
            let b = (l * w + rng.below(3)).saturating_sub(1).min(len);
            let a = rng.below(b + 1);
            (a, b)
        }
        4 => (len - 1 - rng.below(len.min(3)), len),
        5 => {
            let a = rng.below(len);
            (a, a + 1)
        }
        _ => {
            let a = rng.below(len + 1);
            let b = a + rng.below(len - a + 1);
            (a, b)
        }
    };
    (a.min(b), b)
}

fn push_case(out: &mut Vec<String>, b: &Built, cuts: &[usize], sched: &[usize], ops: &[String]) {
    out.push(format!(
        "h {} {} cuts:{} sched:{} {}",
        hex(&b.file),
        hex(&b.fai),
        join(cuts, ","),
        join(sched, ","),
        ops.join(";")
    ));
}

pub fn gen(tier: &str, rng: &mut Rng, out: &mut Vec<String>) {
    let thorough = tier == "thorough";
    let (n_small, n_big, n_trunc, n_all) = if thorough { (5000, 120, 3000, 600) } else { (420, 10, 260, 50) };
    // 1. small files, random histories (valid requests, error requests, partial iterations), untruncated
    for i in 0..n_small {
        let recs = gen_recs(rng, false);
        let b = build(&recs, rng.chance(1, 2), rng.chance(1, 4));
        let sched = gen_sched(rng);
        let mut ops: Vec<String> = vec![];
        if i % 5 == 0 {
            ops.push(format!("rd:{}", rdmode(rng, 2))); // read before any fetch
        }
        let nops = if thorough { 20 + rng.below(60) } else { 10 + rng.below(30) };
        for _ in 0..nops {
            if rng.chance(1, 7) {
                ops.push(error_op(rng, &recs));
            } else {
                let rid = rng.below(recs.len());
                let (a, s) = span_for(rng, &recs[rid]);
                ops.push(valid_op(rng, &recs, rid, a, s));
            }
        }
        push_case(out, &b, &[b.file.len()], &sched, &ops);
    }
    // 2. all (start, stop) of one short record, both read modes
    for _ in 0..n_all {
        let recs = gen_recs(rng, false);
        let b = build(&recs, rng.chance(1, 2), false);
        let rid = rng.below(recs.len());
        let len = recs[rid].seq.len().min(24);
        let sched = gen_sched(rng);
        let mut ops = vec![];
        for a in 0..=len {
            for s in a..=len {
                let m = if (a + s) % 2 == 0 { "r" } else { "i" };
                ops.push(format!("fr:{}:{}:{}:{}", rid, a, s, m));
            }
        }
        push_case(out, &b, &[b.file.len()], &sched, &ops);
    }
    // 3. long records: the 8 KiB BufReader refills inside a request
    for _ in 0..n_big {
        let recs = gen_recs(rng, true);
        let b = build(&recs, rng.chance(1, 2), false);
        let sched = match rng.below(4) {
            0 => vec![100000],
            1 => vec![8192, 1, 1, 3],
            2 => vec![1 + rng.below(700)],
            _ => gen_sched(rng),
        };
        let mut ops = vec![];
        for k in 0..(if thorough { 30 } else { 12 }) {
            let rid = if k % 4 == 3 { rng.below(recs.len()) } else { 0 };
            let r = &recs[rid];
            let len = r.seq.len();
            let (a, s) = if k == 0 {
                (0, len)
            } else if len > 9000 && k % 3 == 1 {
                // a span that straddles the first buffer refill after the seek
                let a = rng.below(len - 8500);
                (a, (a + 8000 + rng.below(600)).min(len))
            } else {
                span_for(rng, r)
            };
            ops.push(valid_op(rng, &recs, rid, a, s));
        }
        push_case(out, &b, &[b.file.len()], &sched, &ops);
    }
    // 4. truncation: the file is cut at every offset inside (and just around) the span of the last request
    for _ in 0..n_trunc {
        let recs = gen_recs(rng, false);
        let b = build(&recs, rng.chance(1, 2), false);
        let sched = gen_sched(rng);
        let rid = rng.below(recs.len());
        let (a, s) = span_for(rng, &recs[rid]);
        let mut ops = vec![];
        for _ in 0..rng.below(3) {
            let r2 = rng.below(recs.len());
            let (a2, s2) = span_for(rng, &recs[r2]);
            ops.push(valid_op(rng, &recs, r2, a2, s2));
        }
        ops.push(valid_op(rng, &recs, rid, a, s));
        let lo = offset_of(&b.idx[rid], a).saturating_sub(2).min(b.file.len());
        let hi = (offset_of(&b.idx[rid], s) + 3).min(b.file.len());
        let mut cuts: Vec<usize> = (lo..=hi).collect();
        if cuts.len() > 70 {
            let keep: Vec<usize> = (0..70).map(|_| cuts[rng.below(cuts.len())]).collect();
            cuts = keep;
            cuts.sort();
            cuts.dedup();
        }
        push_case(out, &b, &cuts, &sched, &ops);
    }
    if thorough {
        // exhaustive small scope: widths 1..5 × lengths 0..12 × all (start, stop) × both terminators × trailing newline
        for w in 1..=5usize {
            for len in 0..=12usize {
                for crlf in [false, true] {
                    for trail in [false, true] {
                        let seq: Vec<u8> = (0..len).map(|i| b"ACGTNRYKMSWBD"[i % 13]).collect();
                        let recs = vec![
                            RecSpec { name: b"p".to_vec(), desc: None, seq: b"TTGCA".to_vec(), w: 2, crlf },
                            RecSpec { name: b"q".to_vec(), desc: Some(b"d e".to_vec()), seq, w, crlf },
                        ];
                        let b = build(&recs, trail, crlf);
                        for (si, sched) in [vec![1usize], vec![2, 1, 3], vec![100000]].iter().enumerate() {
                            let mut ops = vec![];
                            for a in 0..=len {
                                for s in a..=len {
                                    let m = if (a + s + si) % 2 == 0 { "r" } else { "i" };
                                    ops.push(format!("fr:1:{}:{}:{}", a, s, m));
                                }
                            }
                            push_case(out, &b, &[b.file.len()], sched, &ops);
                        }
                    }
                }
            }
        }
    }
}
