//! C17 — rank/select and wavelet matrix equal naive counting.
//!
//! `rs k:<k> n:<n> f:<0|1> <hex bytes> r:<all|i,i,…> s:<all|j,j,…>`
//!     bit i of the vector = bit (i % 8) of byte i / 8 (little endian), n bits; the `BitVec<u8>` is made with
//!     `new_fill(f, n)` and every bit is then set explicitly (f = 1 leaves ones in the padding of the raw last
//!     block, which must not be observable).  `r:all` = every i in 0..=n, `s:all` = every j in 0..=n+1.
//!     obs  `r1:<v|N,…> r0:<…> s1:<…> s0:<…> g:<hex of the bits read back through get()>`
//! `wm <hex text>`   text over A,C,G,T,N,$;  obs  `<rank(A,0)>,<rank(A,1)>,…;<rank(C,0)>,…;…` in the order A,C,G,T,N,$
//! `tab dna2int`     obs = the 128 entries of the literal `DNA2INT` table in the compiled source (comma separated)
use crate::util::*;
use bio::data_structures::rank_select::RankSelect;
use bio::data_structures::wavelet_matrix::WaveletMatrix;
use bv::{BitVec, BitsMut};

const WM_SRC: &str = include_str!("../bio-src/src/data_structures/wavelet_matrix.rs");

fn opt(x: Option<u64>) -> String {
    match x {
        Some(v) => v.to_string(),
        None => "N".into(),
    }
}

fn exec_rs(toks: &[&str]) -> Result<String, String> {
    if toks.len() != 7 {
        return Err("arity".into());
    }
    let k: usize = parse(kv(toks[1], "k")?)?;
    let n: usize = parse(kv(toks[2], "n")?)?;
    let f: usize = parse(kv(toks[3], "f")?)?;
    let bytes = unhex(toks[4])?;
    if k == 0 || k > 1000 || n == 0 || n > 100_000 || f > 1 || bytes.len() != (n + 7) / 8 {
        return Err("shape".into());
    }
    // unused bits of the last byte must be zero in the *input* (canonical form)
    if n % 8 != 0 && (bytes[bytes.len() - 1] >> (n % 8)) != 0 {
        return Err("padding".into());
    }
    let ris: Vec<u64> = match kv(toks[5], "r")? {
        "all" => (0..=n as u64).collect(),
        l => parse_list(l, ',')?,
    };
    let sjs: Vec<u64> = match kv(toks[6], "s")? {
        "all" => (0..=n as u64 + 1).collect(),
        l => parse_list(l, ',')?,
    };
    let mut bits: BitVec<u8> = BitVec::new_fill(f == 1, n as u64);
    for i in 0..n {
        bits.set_bit(i as u64, (bytes[i / 8] >> (i % 8)) & 1 == 1);
    }
    let rs = RankSelect::new(bits, k);
    let r1: Vec<String> = ris.iter().map(|&i| opt(rs.rank_1(i))).collect();
    let r0: Vec<String> = ris.iter().map(|&i| opt(rs.rank_0(i))).collect();
    let s1: Vec<String> = sjs.iter().map(|&j| opt(rs.select_1(j))).collect();
    let s0: Vec<String> = sjs.iter().map(|&j| opt(rs.select_0(j))).collect();
    let mut back = vec![0u8; bytes.len()];
    for i in 0..n {
        if rs.get(i as u64) {
            back[i / 8] |= 1 << (i % 8);
        }
    }
    Ok(format!(
        "r1:{} r0:{} s1:{} s0:{} g:{}",
        join(&r1, ","),
        join(&r0, ","),
        join(&s1, ","),
        join(&s0, ","),
        hex(&back)
    ))
}

const SYMS: &[u8; 6] = b"ACGTN$";

fn exec_wm(toks: &[&str]) -> Result<String, String> {
    if toks.len() != 2 {
        return Err("arity".into());
    }
    let text = unhex(toks[1])?;
    if text.is_empty() || text.len() > 5000 || text.iter().any(|c| !SYMS.contains(c)) {
        return Err("text".into());
    }
    let wm = WaveletMatrix::new(&text);
    let mut rows = vec![];
    for &c in SYMS {
        let r: Vec<u64> = (0..text.len()).map(|p| wm.rank(c, p as u64)).collect();
        rows.push(join(&r, ","));
    }
    Ok(rows.join(";"))
}

fn exec_tab(toks: &[&str]) -> Result<String, String> {
    if toks.len() != 2 || toks[1] != "dna2int" {
        return Err("arity".into());
    }
    // the literal between `const DNA2INT: [u8; 128] = [` and `];`, comments removed
    let start = WM_SRC.find("const DNA2INT").ok_or("no DNA2INT")?;
    let rest = &WM_SRC[start..];
    let eq = rest.find('=').ok_or("no =")?;
    let open = eq + rest[eq..].find('[').ok_or("no [")?;
    let close = open + rest[open..].find("];").ok_or("no ];")?;
    let body = &rest[open + 1..close];
    // block comments `/* … */` inside the literal (line comments are cut below)
    let mut cleaned = String::new();
    let mut r = body;
    while let Some(i) = r.find("/*") {
        cleaned.push_str(&r[..i]);
        match r[i..].find("*/") {
            Some(j) => r = &r[i + j + 2..],
            None => {
                r = "";
            }
        }
    }
    cleaned.push_str(r);
    let body = cleaned.as_str();
    let mut vals: Vec<u64> = vec![];
    for line in body.lines() {
        let line = match line.find("//") {
            Some(i) => &line[..i],
            None => line,
        };
        for t in line.split(',') {
            let t = t.trim();
            if !t.is_empty() {
                vals.push(t.parse::<u64>().map_err(|_| format!("entry {}", t))?);
            }
        }
    }
    Ok(join(&vals, ","))
}

// ------------------------------------------------------------------------------------------------ generators

fn gen_bits(rng: &mut Rng, n: usize) -> Vec<bool> {
    match rng.below(9) {
        0 => vec![false; n],
        1 => vec![true; n],
        2 => (0..n).map(|_| rng.chance(1, 40)).collect(),  // sparse
        3 => (0..n).map(|_| !rng.chance(1, 40)).collect(), // dense
        4 | 5 => (0..n).map(|_| rng.chance(1, 2)).collect(),
        6 => {
            // long runs
            let mut v = Vec::with_capacity(n);
            let mut b = rng.chance(1, 2);
            while v.len() < n {
                let run = 1 + rng.below(120);
                for _ in 0..run.min(n - v.len()) {
                    v.push(b);
                }
                b = !b;
            }
            v
        }
        7 => {
            // a single one / a single zero at a chosen place
            let b = rng.chance(1, 2);
            let mut v = vec![!b; n];
            let pos = match rng.below(3) {
                0 => 0,
                1 => n - 1,
                _ => rng.below(n),
            };
            v[pos] = b;
            v
        }
        _ => {
            // whole all-zero / all-one bytes and superblocks mixed with random bytes
            let mut v = Vec::with_capacity(n);
            while v.len() < n {
                let span = *rng.pick(&[8usize, 8, 16, 32, 64]);
                let mode = rng.below(3);
                for _ in 0..span.min(n - v.len()) {
                    v.push(match mode {
                        0 => false,
                        1 => true,
                        _ => rng.chance(1, 2),
                    });
                }
            }
            v
        }
    }
}

fn pack(bits: &[bool]) -> Vec<u8> {
    let mut out = vec![0u8; (bits.len() + 7) / 8];
    for (i, &b) in bits.iter().enumerate() {
        if b {
            out[i / 8] |= 1 << (i % 8);
        }
    }
    out
}

fn gen_rs(rng: &mut Rng, small_only: bool) -> String {
    let k = if rng.chance(1, 6) { *rng.pick(&[5usize, 8, 16, 33, 100]) } else { 1 + rng.below(4) };
    let s = 32 * k;
    let n = match rng.below(if small_only { 6 } else { 10 }) {
        0 => 1 + rng.below(16),
        1 => 8 * (1 + rng.below(12)) + rng.below(3) - 1,
        2 | 3 => {
            let m = 1 + rng.below(4);
            (s * m + rng.below(19)).saturating_sub(9).max(1)
        }
        4 | 5 => 1 + rng.below(300),
        6 => {
            let m = 1 + rng.below((3000 / s).max(1));
            (s * m + rng.below(19)).saturating_sub(9).max(1)
        }
        _ => 1 + rng.below(3000),
    };
    let n = n.min(3000);
    let bits = gen_bits(rng, n);
    let f = rng.below(2);
    let (r, sj) = if n <= 300 {
        ("all".to_string(), "all".to_string())
    } else {
        let ones = bits.iter().filter(|&&b| b).count();
        let zeros = n - ones;
        let mut ri: Vec<usize> = vec![0, n - 1, n, n + 1];
        let mut sj: Vec<usize> = vec![0, 1, ones, ones + 1, zeros, zeros + 1, n, n + 1];
        for _ in 0..40 {
            ri.push(rng.below(n));
            // positions next to superblock and byte boundaries
            let b = s * rng.below(n / s + 1);
            for d in [0usize, 1, 7, 8] {
                if b + d < n + 2 {
                    ri.push(b + d);
                }
                if b >= d {
                    ri.push(b - d);
                }
            }
            sj.push(rng.below(ones + 2));
            sj.push(rng.below(zeros + 2));
        }
        // ranks reached exactly at superblock boundaries (select has to pick the right superblock)
        let mut c1 = 0usize;
        for (i, &b) in bits.iter().enumerate() {
            if i % s == 0 {
                let c0 = i - c1;
                for d in [0usize, 1] {
                    sj.push(c1 + d);
                    sj.push(c0 + d);
                }
            }
            if b {
                c1 += 1;
            }
        }
        ri.truncate(400);
        sj.truncate(600);
        (join(&ri, ","), join(&sj, ","))
    };
    format!("rs k:{} n:{} f:{} {} r:{} s:{}", k, n, f, hex(&pack(&bits)), r, sj)
}

fn gen_wm(rng: &mut Rng) -> String {
    let n = match rng.below(5) {
        0 => 1 + rng.below(4),
        1 => *rng.pick(&[7usize, 8, 9, 31, 32, 33, 63, 64, 65, 127, 128, 129]),
        _ => 1 + rng.below(200),
    };
    let alpha: Vec<u8> = match rng.below(6) {
        0 => vec![*rng.pick(SYMS)],
        1 => {
            let a = *rng.pick(SYMS);
            let b = *rng.pick(SYMS);
            vec![a, b]
        }
        2 => b"ACGT".to_vec(),
        _ => SYMS.to_vec(),
    };
    let mut t = rng.seq(&alpha, n);
    if rng.chance(1, 3) {
        // runs
        let mut i = 0;
        while i < n {
            let c = *rng.pick(&alpha);
            let run = 1 + rng.below(20);
            for j in i..(i + run).min(n) {
                t[j] = c;
            }
            i += run;
        }
    }
    format!("wm {}", hex(&t))
}

fn enum_rs(out: &mut Vec<String>) {
    // all bit vectors of length 1..=12, k = 1
    for n in 1..=12usize {
        for v in 0u32..(1 << n) {
            let bytes = [(v & 255) as u8, (v >> 8) as u8];
            out.push(format!("rs k:1 n:{} f:{} {} r:all s:all", n, v & 1, hex(&bytes[..(n + 7) / 8])));
        }
    }
}

pub fn gen(tier: &str, rng: &mut Rng, out: &mut Vec<String>) {
    let thorough = tier == "thorough";
    out.push("tab dna2int".into());
    let n_rs = if thorough { 40_000 } else { 1_500 };
    let n_wm = if thorough { 12_000 } else { 500 };
    for i in 0..n_rs {
        out.push(gen_rs(rng, i % 3 == 0));
    }
    for _ in 0..n_wm {
        out.push(gen_wm(rng));
    }
    if thorough {
        enum_rs(out);
    }
}

pub fn exec(toks: &[&str]) -> Result<String, String> {
    match toks.first() {
        Some(&"rs") => exec_rs(toks),
        Some(&"wm") => exec_wm(toks),
        Some(&"tab") => exec_tab(toks),
        _ => Err("kind".into()),
    }
}
