//! C04 — BWT, less, Occ (all sampling rates), inverse BWT.
//!
//! `t <text> k:<k> a:<alphabet> q:<query symbols>`
//!    => `<sa>;<bwt>;<less[c] for c in q>;<col(c)>/…  for c in q;<invert_bwt(bwt) or ->`
//! col(c) = Occ.get(bwt, r, c) for r = 0..n-1, printed as `d<digits>` (first value and successive differences, one
//! digit each) when all differences are in 0..=9, else as `v<v0>,<v1>,…`.
//! The inverse is printed for single-sentinel texts only.
use crate::c03::{any_text, many_sentinels};
use crate::util::*;
use bio::alphabets::Alphabet;
use bio::data_structures::bwt::{bwt, invert_bwt, less, Occ};
use bio::data_structures::suffix_array::suffix_array;

fn col_str(col: &[usize]) -> String {
    let mut d = String::with_capacity(col.len() + 1);
    d.push('d');
    let mut prev = 0usize;
    let mut ok = true;
    for &v in col {
        if v >= prev && v - prev <= 9 {
            d.push((b'0' + (v - prev) as u8) as char);
        } else {
            ok = false;
            break;
        }
        prev = v;
    }
    if ok {
        d
    } else {
        format!("v{}", join(col, ","))
    }
}

fn long_text(rng: &mut Rng) -> Vec<u8> {
    let len = 250 + rng.below(380);
    let alpha: Vec<u8> = match rng.below(4) {
        0 => b"AC".to_vec(),
        1 => b"ACGT".to_vec(),
        2 => b"a".to_vec(),
        _ => b"ACGTN".to_vec(),
    };
    let mut t: Vec<u8> = match rng.below(6) {
        0 => {
            let per = 1 + rng.below(5);
            let w = rng.seq(&alpha, per);
            (0..len).map(|i| w[i % per]).collect()
        }
        1 => crate::c03::fib_word(alpha[0], *alpha.last().unwrap(), len),
        // long runs: blocks of one symbol (many equal checkpoints → early exit)
        2 => {
            let mut t = vec![];
            while t.len() < len {
                let c = *rng.pick(&alpha);
                let run = 1 + rng.below(150);
                t.extend(std::iter::repeat(c).take(run));
            }
            t.truncate(len);
            t
        }
        // rare symbol in a sea of another one
        3 => {
            let mut t = vec![alpha[0]; len];
            for _ in 0..1 + rng.below(6) {
                let i = rng.below(len);
                t[i] = *alpha.last().unwrap();
            }
            t
        }
        _ => rng.seq(&alpha, len),
    };
    // a few inner sentinels sometimes
    if rng.chance(1, 3) {
        for _ in 0..1 + rng.below(4) {
            let i = rng.below(t.len());
            t[i] = b'$';
        }
    }
    t.push(b'$');
    t
}

const KS: [usize; 13] = [1, 2, 3, 5, 8, 63, 64, 65, 66, 100, 127, 128, 129];

fn case(rng: &mut Rng, i: usize) -> String {
    let t = match i % 3 {
        0 => any_text(rng, false, false, 30),
        1 => any_text(rng, true, false, 120),
        _ => {
            if i % 120 == 2 {
                {
                    let m = 256 + rng.below(30);
                    many_sentinels(rng, b'$', m)
                }
            } else {
                long_text(rng)
            }
        }
    };
    let n = t.len();
    let k = if rng.chance(1, 12) {
        2 * n
    } else if rng.chance(1, 12) {
        // a single checkpoint / exactly two checkpoints
        *rng.pick(&[n.saturating_sub(1).max(1), n, n + 1, (n + 1) / 2, n / 2 + 1])
    } else if n > 200 && rng.chance(1, 2) {
        *rng.pick(&KS[5..])
    } else {
        *rng.pick(&KS)
    };
    let sent = t[n - 1];
    // alphabet: the text symbols, optionally without a `$` sentinel (Occ::new adds it), plus absent symbols
    let mut a: Vec<u8> = t.clone();
    a.sort();
    a.dedup();
    let max_other = *a.last().unwrap();
    if sent == b'$' && max_other > b'$' && rng.chance(1, 2) {
        a.retain(|&c| c != b'$');
    }
    for _ in 0..rng.below(4) {
        let c = match rng.below(4) {
            0 => rng.below(256) as u8,
            1 => max_other.saturating_add(1),
            2 => sent.saturating_add(1),
            _ => *rng.pick(b"ACGTNXZ#%~"),
        };
        // symbols below the sentinel would break the "sentinel smallest" convention of the text only, not of
        // the alphabet; they are legitimate absent symbols
        a.push(c);
    }
    a.sort();
    a.dedup();
    let m = *a.last().unwrap() as usize + 1;
    let mut q = a.clone();
    if (b'$' as usize) < m && !q.contains(&b'$') {
        q.push(b'$');
    }
    format!("t {} k:{} a:{} q:{}", hex(&t), k, hex(&a), hex(&q))
}

pub fn gen(tier: &str, rng: &mut Rng, out: &mut Vec<String>) {
    let n = if tier == "thorough" { 15_000 } else { 1_500 };
    for i in 0..n {
        out.push(case(rng, i));
    }
}

pub fn exec(toks: &[&str]) -> Result<String, String> {
    if toks.len() != 5 || toks[0] != "t" {
        return Err("arity".into());
    }
    let t = unhex(toks[1])?;
    let k: usize = parse(kv(toks[2], "k")?)?;
    let a = unhex(kv(toks[3], "a")?)?;
    let q = unhex(kv(toks[4], "q")?)?;
    if t.is_empty() || t.len() > 100_000 {
        return Err("text length".into());
    }
    let sent = t[t.len() - 1];
    if t.iter().any(|&c| c < sent) {
        return Err("sentinel not smallest".into());
    }
    if k == 0 || k > (1usize << 31) {
        return Err("k".into());
    }
    if a.is_empty() {
        return Err("empty alphabet".into());
    }
    let alphabet = Alphabet::new(&a);
    let m = *a.iter().max().unwrap() as usize + 1;
    // tracked symbols: the alphabet, and `$` when it is below the table size
    let tracked = |c: u8| a.contains(&c) || (c == b'$' && (b'$' as usize) < m);
    if !t.iter().all(|&c| tracked(c)) {
        return Err("text symbol outside the alphabet".into());
    }
    if !q.iter().all(|&c| tracked(c)) {
        return Err("query symbol not tracked".into());
    }
    let sa = suffix_array(&t);
    let b = bwt(&t, &sa);
    let le = less(&b, &alphabet);
    let less_q: Vec<String> = q.iter().map(|&c| le.get(c as usize).map_or("n".to_string(), |v| v.to_string())).collect();
    let occ = Occ::new(&b, k as u32, &alphabet);
    let mut cols = vec![];
    for &c in &q {
        let col: Vec<usize> = (0..b.len()).map(|r| occ.get(&b, r, c)).collect();
        cols.push(col_str(&col));
    }
    let single = t.iter().filter(|&&c| c == sent).count() == 1;
    let inv = if single { hex(&invert_bwt(&b)) } else { "-".to_string() };
    Ok(format!("{};{};{};{};{}", join(&sa, ","), hex(&b), less_q.join(","), cols.join("/"), inv))
}
