//! C19 — generator and driver of the real API.
use crate::util::*;

pub fn gen(_tier: &str, _rng: &mut Rng, _out: &mut Vec<String>) {}

pub fn exec(_toks: &[&str]) -> Result<String, String> {
    Err("unimplemented".into())
}
