//! C19 — k-mer / q-gram indexing and sparse chaining.
//!
//! ```text
//! codes  <alpha hex> <q> <text hex> <gram/gram/…|->            => w=<width> f=<codes> r=<codes> x=<codes>
//! idx    <alpha hex> <q> <max_count|max> <text hex> <q;q;…> => ok <res;res;…> | BUILDPANIC <class>
//!        query: g:<gram hex> | m:<min_count>:<pattern hex> | e:<pattern hex>
//! kmer   <k> <x hex> <y hex> <match_score> <gap_open> <gap_extend>
//!                                                          => m= h1= h2= score= path= sdp= uni=
//! lcs    <k> <x:y,…>                                       => score=<n> path=<idx>
//! sdp    <k> <match_score> <gap_open> <gap_extend> <x:y,…> => sdp=<idx> uni=<idx>
//! expand <k> <allowed_mismatches> <x hex> <y hex> <x:y,…>  => exp=<pairs> score=<n> path=<idx>
//! ```
//! gap_open / gap_extend are magnitudes (negated here).
use crate::util::*;
use bio::alignment::sparse;
use bio::alphabets::{Alphabet, RankTransform};
use bio::data_structures::qgram_index::QGramIndex;
use std::panic::{catch_unwind, AssertUnwindSafe};

fn panic_class(e: &(dyn std::any::Any + Send)) -> String {
    let msg = if let Some(s) = e.downcast_ref::<&str>() {
        s.to_string()
    } else if let Some(s) = e.downcast_ref::<String>() {
        s.clone()
    } else {
        "unknown".to_string()
    };
    let mut m: String =
        msg.chars().map(|c| if c.is_ascii_alphanumeric() { c.to_ascii_lowercase() } else { '-' }).collect();
    while m.contains("--") {
        m = m.replace("--", "-");
    }
    m.truncate(80);
    m
}

// ------------------------------------------------------------------------------------------------ generators

/// `n` distinct byte symbols, in ascending order
fn alphabet(rng: &mut Rng, n: usize) -> Vec<u8> {
    let mut a: Vec<u8> = match rng.below(4) {
        0 => (0..n).map(|i| b"ACGTNXYZ"[i % 8].wrapping_add((i / 8) as u8 * 8)).collect(),
        1 => (0..n).map(|i| (i as u8).wrapping_mul(37).wrapping_add(3)).collect(),
        _ => {
            let mut s = std::collections::BTreeSet::new();
            if n >= 2 && rng.chance(1, 2) {
                s.insert(0u8);
                s.insert(255u8);
            }
            while s.len() < n {
                s.insert(rng.below(256) as u8);
            }
            s.into_iter().collect()
        }
    };
    a.sort_unstable();
    a.dedup();
    let mut x = 0u8;
    while a.len() < n {
        if !a.contains(&x) {
            a.push(x);
        }
        x = x.wrapping_add(1);
    }
    a.sort_unstable();
    a
}

fn bits_for(n: usize) -> usize {
    let mut b = 0;
    while (1usize << b) < n {
        b += 1;
    }
    b
}

fn ranks_of(alpha: &[u8], s: &[u8]) -> Vec<usize> {
    s.iter().map(|c| alpha.iter().position(|a| a == c).unwrap()).collect()
}

fn code_of(bits: usize, rs: &[usize]) -> u128 {
    rs.iter().fold(0u128, |c, &r| (c << bits) | r as u128)
}

fn some_text(rng: &mut Rng, alpha: &[u8], maxlen: usize) -> Vec<u8> {
    let len = match rng.below(10) {
        0 => rng.below(4),
        1 => maxlen,
        _ => rng.below(maxlen + 1),
    };
    match rng.below(6) {
        0 => {
            // periodic
            let per = 1 + rng.below(4);
            let w = rng.seq(alpha, per);
            (0..len).map(|i| w[i % per]).collect()
        }
        1 => {
            // a repeated block with a few point changes
            let per = 2 + rng.below(8);
            let w = rng.seq(alpha, per);
            let mut t: Vec<u8> = (0..len).map(|i| w[i % per]).collect();
            for _ in 0..rng.below(4) {
                if !t.is_empty() {
                    let i = rng.below(t.len());
                    t[i] = *rng.pick(alpha);
                }
            }
            t
        }
        _ => rng.seq(alpha, len),
    }
}

/// make every q-gram code of `t` smaller than |A|^q (so that the index of a non-power-of-two alphabet can be built)
fn tame(rng: &mut Rng, alpha: &[u8], q: usize, t: &mut Vec<u8>) {
    let bits = bits_for(alpha.len());
    let cap = (alpha.len() as u128).pow(q as u32);
    for _ in 0..400 {
        let rs = ranks_of(alpha, t);
        let bad = (0..(t.len() + 1).saturating_sub(q)).find(|&i| code_of(bits, &rs[i..i + q]) >= cap);
        match bad {
            None => return,
            Some(i) => {
                // lower the leading symbol (or a random one of the window)
                let j = if rng.chance(2, 3) { i } else { i + rng.below(q) };
                let r = rs[j];
                t[j] = alpha[if r > 0 { rng.below(r) } else { 0 }];
                if r == 0 {
                    t[i] = alpha[0];
                    if q > 1 {
                        t[i + 1] = alpha[0];
                    }
                }
            }
        }
    }
}

fn pattern_for(rng: &mut Rng, alpha: &[u8], q: usize, text: &[u8]) -> Vec<u8> {
    let n = text.len();
    match rng.below(12) {
        0 => text.to_vec(),
        // substring at every offset
        1..=4 if n > 0 => {
            let s = rng.below(n);
            let e = s + rng.below(n - s + 1);
            let mut p = text[s..e].to_vec();
            if rng.chance(1, 2) {
                p = rng.mutate(&p, alpha, 10);
            }
            p
        }
        // substring with foreign material in front (pattern position ahead of the text position) and/or behind
        5 | 6 if n > 0 => {
            let s = rng.below(n);
            let e = s + rng.below(n - s + 1);
            let pre = rng.below(s + 4);
            let mut p = rng.seq(alpha, pre);
            p.extend_from_slice(&text[s..e]);
            let post = rng.below(4);
            p.extend(rng.seq(alpha, post));
            p
        }
        // two separated pieces of the text on one diagonal, differing in between
        7 if n >= 2 * q + 2 => {
            let mut p = text.to_vec();
            let i = q + rng.below(n - 2 * q);
            let others: Vec<u8> = alpha.iter().cloned().filter(|&c| c != p[i]).collect();
            if !others.is_empty() {
                p[i] = *rng.pick(&others);
            }
            let s = rng.below(q + 1).min(i.saturating_sub(q));
            p[s..].to_vec()
        }
        8 => rng.mutate(text, alpha, 15),
        9 => {
            let l = rng.below(q + 1);
            rng.seq(alpha, l)
        }
        10 => {
            let per = 1 + rng.below(3);
            let w = rng.seq(alpha, per);
            let l = rng.below(30);
            (0..l).map(|i| w[i % per]).collect()
        }
        _ => {
            let l = rng.below(40);
            rng.seq(alpha, l)
        }
    }
}

fn gen_codes(rng: &mut Rng, out: &mut Vec<String>) {
    let n = match rng.below(12) {
        0..=7 => 1 + rng.below(7),
        8 => 8,
        9 => *rng.pick(&[9usize, 15, 16, 17, 31, 32, 33]),
        10 => *rng.pick(&[64usize, 65, 128, 129, 200]),
        _ => *rng.pick(&[255usize, 256]),
    };
    let alpha = alphabet(rng, n);
    let bits = bits_for(n);
    let qmax = if bits == 0 { 70 } else { 64 / bits };
    let q = match rng.below(6) {
        0 => qmax,
        1 => 1 + rng.below(qmax),
        2 => (qmax / 2).max(1) + rng.below(qmax / 2 + 1),
        _ => 1 + rng.below(qmax.min(6)),
    }
    .min(qmax)
    .max(1);
    let maxlen = if rng.chance(1, 4) { q + 12 } else { 60 };
    let text = some_text(rng, &alpha, maxlen);
    // the alphabet is handed over unsorted and with a duplicate now and then
    let mut given = alpha.clone();
    if rng.chance(1, 3) {
        given.reverse();
    }
    if rng.chance(1, 4) {
        given.push(alpha[rng.below(alpha.len())]);
    }
    // extra q-grams whose codes are requested: words over the lowest and the highest symbol (a width that is one bit
    // short makes them collide), a few random ones, a few windows of the text again
    let mut extras: Vec<Vec<u8>> = vec![];
    let (lo, hi) = (alpha[0], alpha[alpha.len() - 1]);
    for _ in 0..6 {
        extras.push((0..q).map(|_| if rng.chance(1, 2) { lo } else { hi }).collect());
    }
    extras.push(vec![lo; q]);
    extras.push(vec![hi; q]);
    if alpha.len() > 2 {
        let mid = alpha[alpha.len() / 2];
        extras.push((0..q).map(|i| if i == 0 { mid } else { lo }).collect());
        extras.push((0..q).map(|i| if i + 1 == q { mid } else { lo }).collect());
    }
    for _ in 0..3 {
        extras.push(rng.seq(&alpha, q));
    }
    if text.len() >= q {
        for _ in 0..2 {
            let i = rng.below(text.len() - q + 1);
            extras.push(text[i..i + q].to_vec());
        }
    }
    let xs: Vec<String> = extras.iter().map(|g| hex(g)).collect();
    out.push(format!("codes {} {} {} {}", hex(&given), q, hex(&text), xs.join("/")));
}

fn gen_idx(rng: &mut Rng, out: &mut Vec<String>) {
    let n = match rng.below(12) {
        0 => 1,
        1 => 2,
        2 => 4,
        3 => 8,
        // larger alphabets (amino acids, letters): any size is in the quantifier
        4 => *rng.pick(&[9usize, 12, 16, 17, 20, 21, 26]),
        _ => *rng.pick(&[3usize, 3, 5, 5, 6, 7]),
    };
    let alpha = alphabet(rng, n);
    // the address table has 2^(bits*q) + 1 slots: keep it below 2^16
    let bits = bits_for(n);
    let mut qmax = 1;
    while qmax < 10 && bits * (qmax + 1) <= 16 {
        qmax += 1;
    }
    let q = if rng.chance(1, 5) { 1 + rng.below(qmax) } else { 1 + rng.below(qmax.min(4)) };
    let mut text = some_text(rng, &alpha, 60);
    if !n.is_power_of_two() && rng.chance(1, 2) {
        tame(rng, &alpha, q, &mut text);
    }
    let mc = match rng.below(8) {
        0..=3 => "max".to_string(),
        4 => "0".to_string(),
        5 => "1".to_string(),
        _ => format!("{}", 1 + rng.below(4)),
    };
    let nq = 2 + rng.below(5);
    let mut qs = vec![];
    for _ in 0..nq {
        match rng.below(7) {
            0 | 1 => {
                // a q-gram of the text, or a random one
                let g = if text.len() >= q && rng.chance(3, 4) {
                    let i = rng.below(text.len() - q + 1);
                    text[i..i + q].to_vec()
                } else {
                    let mut g = rng.seq(&alpha, q);
                    if !n.is_power_of_two() && rng.chance(3, 4) {
                        tame(rng, &alpha, q, &mut g);
                    }
                    g
                };
                qs.push(format!("g:{}", hex(&g)));
            }
            2..=4 => {
                let mut p = pattern_for(rng, &alpha, q, &text);
                if !n.is_power_of_two() && rng.chance(1, 2) {
                    tame(rng, &alpha, q, &mut p);
                }
                let minc = match rng.below(6) {
                    0 => 0,
                    1 | 2 => 1,
                    3 => 2,
                    _ => 1 + rng.below(4),
                };
                qs.push(format!("m:{}:{}", minc, hex(&p)));
            }
            _ => {
                let mut p = pattern_for(rng, &alpha, q, &text);
                if !n.is_power_of_two() && rng.chance(1, 2) {
                    tame(rng, &alpha, q, &mut p);
                }
                qs.push(format!("e:{}", hex(&p)));
            }
        }
    }
    out.push(format!("idx {} {} {} {} {}", hex(&alpha), q, mc, hex(&text), qs.join(";")));
}

fn naive_kmer_matches(x: &[u8], y: &[u8], k: usize) -> Vec<(u32, u32)> {
    let mut v = vec![];
    if k == 0 || x.len() < k || y.len() < k {
        return v;
    }
    for i in 0..=x.len() - k {
        for j in 0..=y.len() - k {
            if x[i..i + k] == y[j..j + k] {
                v.push((i as u32, j as u32));
            }
        }
    }
    v
}

fn seq_pair(rng: &mut Rng) -> (Vec<u8>, Vec<u8>, usize) {
    let n = 1 + rng.below(4);
    let alpha = alphabet(rng, n);
    loop {
        let k = match rng.below(5) {
            0 => 1,
            1 => 2,
            _ => 1 + rng.below(8),
        };
        let x = some_text(rng, &alpha, 60);
        let y = match rng.below(6) {
            0 => some_text(rng, &alpha, 60),
            1 => x.clone(),
            2 => {
                // a piece of x inside other material
                let s = rng.below(x.len() + 1);
                let e = s + rng.below(x.len() - s + 1);
                let pre = rng.below(10);
                let mut y = rng.seq(&alpha, pre);
                y.extend_from_slice(&x[s..e]);
                let post = rng.below(10);
                y.extend(rng.seq(&alpha, post));
                y
            }
            3 => {
                // several mutated copies of a short prefix of x: one sequence much longer than the other
                let l = rng.below(x.len().min(14) + 1);
                let mut y = vec![];
                for _ in 0..2 + rng.below(3) {
                    y.extend(rng.mutate(&x[..l], &alpha, 10));
                }
                let xs = x[..l].to_vec();
                let (a, b) = if rng.chance(1, 2) { (xs, y) } else { (y, xs) };
                if naive_kmer_matches(&a, &b, k).len() <= 160 {
                    return (a, b, k);
                }
                continue;
            }
            _ => {
                let rate = *rng.pick(&[3usize, 8, 15, 30]);
                rng.mutate(&x, &alpha, rate)
            }
        };
        let (x, y) = if rng.chance(1, 3) { (y, x) } else { (x, y) };
        if naive_kmer_matches(&x, &y, k).len() <= 160 {
            return (x, y, k);
        }
    }
}

fn gen_kmer(rng: &mut Rng, out: &mut Vec<String>) {
    let (x, y, k) = seq_pair(rng);
    out.push(format!("kmer {} {} {} {} {} {}", k, hex(&x), hex(&y), 1 + rng.below(3), rng.below(6), rng.below(3)));
}

fn show_pairs(v: &[(u32, u32)]) -> String {
    if v.is_empty() {
        "-".into()
    } else {
        v.iter().map(|(a, b)| format!("{}:{}", a, b)).collect::<Vec<_>>().join(",")
    }
}

fn match_list(rng: &mut Rng, k: usize) -> Vec<(u32, u32)> {
    // the two coordinate ranges differ in half of the lists (a short sequence against a long one)
    let g = 3 + rng.below(40);
    let (gx, gy) = match rng.below(4) {
        0 => (g, 3 + rng.below(8)),
        1 => (3 + rng.below(8), g),
        _ => (g, g),
    };
    let n = match rng.below(4) {
        0 => rng.below(4),
        1 | 2 => rng.below(13),
        _ => rng.below(60),
    };
    let mut v: Vec<(u32, u32)> = vec![];
    while v.len() < n {
        match rng.below(4) {
            // a diagonal run
            0 => {
                let (x, y) = (rng.below(gx) as u32, rng.below(gy) as u32);
                let l = 1 + rng.below(2 * k + 3);
                for t in 0..l as u32 {
                    v.push((x + t, y + t));
                }
            }
            // a match exactly k (or k±1) after an earlier one
            1 if !v.is_empty() => {
                let (x, y) = *rng.pick(&v);
                let dx = (k as i64 + rng.range(-1, 1)).max(0) as u32;
                let dy = (k as i64 + rng.range(-1, 2)).max(0) as u32;
                v.push((x + dx, y + dy));
            }
            _ => v.push((rng.below(gx) as u32, rng.below(gy) as u32)),
        }
    }
    v.sort_unstable();
    v.dedup();
    v
}

fn gen_lcs(rng: &mut Rng, out: &mut Vec<String>) {
    let k = 1 + rng.below(6);
    let v = match_list(rng, k);
    out.push(format!("lcs {} {}", k, show_pairs(&v)));
}

fn gen_sdp(rng: &mut Rng, out: &mut Vec<String>) {
    let k = 1 + rng.below(6);
    let v = match_list(rng, k);
    out.push(format!("sdp {} {} {} {} {}", k, rng.below(4), rng.below(8), rng.below(4), show_pairs(&v)));
}

fn gen_expand(rng: &mut Rng, out: &mut Vec<String>) {
    let (x, y, k) = seq_pair(rng);
    let all = naive_kmer_matches(&x, &y, k);
    let mut ms: Vec<(u32, u32)> = match rng.below(4) {
        0 => all.clone(),
        // arbitrary in-range seeds
        1 if x.len() >= k && y.len() >= k => (0..rng.below(8))
            .map(|_| (rng.below(x.len() - k + 1) as u32, rng.below(y.len() - k + 1) as u32))
            .collect(),
        _ => {
            let keep = 1 + rng.below(4);
            all.iter().cloned().filter(|_| rng.chance(1, keep)).collect()
        }
    };
    ms.sort_unstable();
    ms.dedup();
    out.push(format!("expand {} {} {} {} {}", k, rng.below(3), hex(&x), hex(&y), show_pairs(&ms)));
}

fn enum_seqs(alpha: &[u8], maxlen: usize) -> Vec<Vec<u8>> {
    let mut out = vec![];
    let mut cur: Vec<Vec<u8>> = vec![vec![]];
    for _ in 0..=maxlen {
        out.extend(cur.iter().cloned());
        let mut nxt = vec![];
        for s in &cur {
            for &a in alpha {
                let mut t = s.clone();
                t.push(a);
                nxt.push(t);
            }
        }
        cur = nxt;
    }
    out
}

pub fn gen(tier: &str, rng: &mut Rng, out: &mut Vec<String>) {
    let scale = if tier == "thorough" { 25 } else { 1 };
    for _ in 0..1500 * scale {
        gen_idx(rng, out);
    }
    for _ in 0..600 * scale {
        gen_codes(rng, out);
    }
    for _ in 0..600 * scale {
        gen_kmer(rng, out);
    }
    for _ in 0..1500 * scale {
        gen_lcs(rng, out);
    }
    for _ in 0..400 * scale {
        gen_sdp(rng, out);
    }
    for _ in 0..400 * scale {
        gen_expand(rng, out);
    }
    if tier == "thorough" {
        // exhaustive small scope for the sparse routines: every subset of the 3x3 grid, every subset of at most 4 points
        // of the 4x4 grid, k = 1..3 (lcskpp and sdpkpp/union); every pair of strings over {a,b} up to length 4, k = 1, 2
        let mut grids: Vec<Vec<(u32, u32)>> = vec![];
        for mask in 0u32..512 {
            grids.push((0..9).filter(|b| mask >> b & 1 == 1).map(|b| (b / 3, b % 3)).collect());
        }
        for mask in 0u32..65536 {
            if mask.count_ones() <= 4 {
                grids.push((0..16).filter(|b| mask >> b & 1 == 1).map(|b| (b / 4, b % 4)).collect());
            }
        }
        for g in &grids {
            for k in 1..=3 {
                out.push(format!("lcs {} {}", k, show_pairs(g)));
                out.push(format!("sdp {} 1 1 1 {}", k, show_pairs(g)));
            }
        }
        let strs = enum_seqs(b"ab", 4);
        for x in &strs {
            for y in &strs {
                for k in 1..=2 {
                    out.push(format!("kmer {} {} {} 1 1 1", k, hex(x), hex(y)));
                }
            }
        }
        // exhaustive small scope: alphabets of 1, 2, 3 symbols, q ≤ 2, all texts of length ≤ 6,
        // every q-gram, and every pattern of length ≤ 3 through `matches` (min_count 1) and `exact_matches`
        for n in 1..=3usize {
            let alpha: Vec<u8> = b"abc"[..n].to_vec();
            let texts = enum_seqs(&alpha, 6);
            let pats = enum_seqs(&alpha, 3);
            for q in 1..=2usize {
                let grams: Vec<Vec<u8>> = enum_seqs(&alpha, q).into_iter().filter(|g| g.len() == q).collect();
                for t in &texts {
                    let mut qs: Vec<String> = grams.iter().map(|g| format!("g:{}", hex(g))).collect();
                    for p in &pats {
                        qs.push(format!("m:1:{}", hex(p)));
                        qs.push(format!("e:{}", hex(p)));
                    }
                    for mc in ["max", "1"] {
                        out.push(format!("idx {} {} {} {} {}", hex(&alpha), q, mc, hex(t), qs.join(";")));
                    }
                    let xs: Vec<String> = grams.iter().map(|g| hex(g)).collect();
                    out.push(format!("codes {} {} {} {}", hex(&alpha), q, hex(t), xs.join("/")));
                }
            }
        }
    }
}

// ------------------------------------------------------------------------------------------------ exec

fn parse_pairs(s: &str) -> Result<Vec<(u32, u32)>, String> {
    let mut v = vec![];
    for it in split_list(s, ',') {
        let (a, b) = it.split_once(':').ok_or("pair")?;
        v.push((parse::<u32>(a)?, parse::<u32>(b)?));
    }
    Ok(v)
}

fn strictly_sorted(v: &[(u32, u32)]) -> bool {
    v.windows(2).all(|w| w[0] < w[1])
}

fn check_word(alpha: &[u8], s: &[u8]) -> Result<(), String> {
    if s.iter().all(|c| alpha.contains(c)) {
        Ok(())
    } else {
        Err("symbol outside the alphabet".into())
    }
}

fn lcs_fields(ms: &[(u32, u32)], k: usize) -> String {
    let r = sparse::lcskpp(ms, k);
    // dp_vector: one (score, predecessor) cell per match (the vector is allocated with one slot per event)
    let dp: Vec<u32> = r.dp_vector.iter().take(ms.len()).map(|c| c.0).collect();
    // the whole vector as score:predecessor+1 (0 = no predecessor, -1 in the code), compared with the mirror model (drift tag only)
    let dpf: Vec<String> = r.dp_vector.iter().map(|c| format!("{}:{}", c.0, c.1 as i64 + 1)).collect();
    let dpf = if dpf.is_empty() { "-".to_string() } else { dpf.join(",") };
    format!("score={} path={} dp={} dpf={}", r.score, join(&r.path, ","), join(&dp, ","), dpf)
}

fn sdp_fields(ms: &[(u32, u32)], k: usize, msc: u32, go: i32, ge: i32) -> String {
    let r = sparse::sdpkpp(ms, k, msc, -go, -ge);
    let u = sparse::sdpkpp_union_lcskpp_path(ms, k, msc, -go, -ge);
    let dpf: Vec<String> = r.dp_vector.iter().map(|c| format!("{}:{}", c.0, c.1 as i64 + 1)).collect();
    let dpf = if dpf.is_empty() { "-".to_string() } else { dpf.join(",") };
    format!("sdp={} uni={} sdpscore={} sdpf={}", join(&r.path, ","), join(&u, ","), r.score, dpf)
}

pub fn exec(toks: &[&str]) -> Result<String, String> {
    if toks.is_empty() {
        return Err("arity".into());
    }
    match toks[0] {
        "codes" => {
            if toks.len() != 5 {
                return Err("arity".into());
            }
            let alpha = unhex(toks[1])?;
            let q: u32 = parse(toks[2])?;
            let text = unhex(toks[3])?;
            if alpha.is_empty() || q == 0 || q > 1000 {
                return Err("domain".into());
            }
            check_word(&alpha, &text)?;
            let mut extras = vec![];
            for g in split_list(toks[4], '/') {
                let g = unhex(g)?;
                if g.len() != q as usize {
                    return Err("gram length".into());
                }
                check_word(&alpha, &g)?;
                extras.push(g);
            }
            let a = Alphabet::new(&alpha);
            let ranks = RankTransform::new(&a);
            let w = ranks.get_width();
            let f: Vec<usize> = ranks.qgrams(q, &text).collect();
            let r: Vec<usize> = ranks.rev_qgrams(q, &text).collect();
            let x: Vec<usize> = extras.iter().map(|g| ranks.qgrams(q, g).next().unwrap()).collect();
            Ok(format!("w={} f={} r={} x={}", w, join(&f, ","), join(&r, ","), join(&x, ",")))
        }
        "idx" => {
            if toks.len() != 6 {
                return Err("arity".into());
            }
            let alpha = unhex(toks[1])?;
            let q: u32 = parse(toks[2])?;
            let mc: Option<usize> = if toks[3] == "max" { None } else { Some(parse(toks[3])?) };
            let text = unhex(toks[4])?;
            if alpha.is_empty() || q == 0 {
                return Err("domain".into());
            }
            let mut sorted = alpha.clone();
            sorted.sort_unstable();
            sorted.dedup();
            let n = sorted.len();
            if bits_for(n) * q as usize > 22 {
                return Err("index too large".into());
            }
            check_word(&alpha, &text)?;
            enum Q {
                G(Vec<u8>),
                M(usize, Vec<u8>),
                E(Vec<u8>),
            }
            let mut queries = vec![];
            for s in split_ne(toks[5], ';') {
                let parts: Vec<&str> = s.split(':').collect();
                let qu = match parts.as_slice() {
                    ["g", h] => {
                        let g = unhex(h)?;
                        if g.len() != q as usize {
                            return Err("gram length".into());
                        }
                        Q::G(g)
                    }
                    ["m", c, h] => Q::M(parse(c)?, unhex(h)?),
                    ["e", h] => Q::E(unhex(h)?),
                    _ => return Err("query".into()),
                };
                match &qu {
                    Q::G(p) | Q::M(_, p) | Q::E(p) => check_word(&alpha, p)?,
                }
                queries.push(qu);
            }
            let a = Alphabet::new(&alpha);
            let built = catch_unwind(AssertUnwindSafe(|| match mc {
                None => QGramIndex::new(q, &text, &a),
                Some(m) => QGramIndex::with_max_count(q, &text, &a, m),
            }));
            let index = match built {
                Ok(i) => i,
                Err(e) => return Ok(format!("BUILDPANIC {}", panic_class(&*e))),
            };
            let ranks = RankTransform::new(&a);
            let mut res = vec![];
            for qu in &queries {
                let r = catch_unwind(AssertUnwindSafe(|| match qu {
                    Q::G(g) => {
                        let code = ranks.qgrams(q, g).next().unwrap();
                        join(index.qgram_matches(code), ",")
                    }
                    Q::M(c, p) => {
                        let mut v: Vec<String> = index
                            .matches(p, *c)
                            .iter()
                            .map(|m| {
                                format!(
                                    "{}:{}:{}:{}:{}",
                                    m.pattern.start, m.pattern.stop, m.text.start, m.text.stop, m.count
                                )
                            })
                            .collect();
                        v.sort();
                        join(&v, ",")
                    }
                    Q::E(p) => {
                        let mut v: Vec<String> = index
                            .exact_matches(p)
                            .iter()
                            .map(|m| format!("{}:{}:{}:{}", m.pattern.start, m.pattern.stop, m.text.start, m.text.stop))
                            .collect();
                        v.sort();
                        join(&v, ",")
                    }
                }));
                res.push(match r {
                    Ok(s) => s,
                    Err(e) => format!("P!{}", panic_class(&*e)),
                });
            }
            Ok(format!("ok {}", res.join(";")))
        }
        "kmer" => {
            if toks.len() != 7 {
                return Err("arity".into());
            }
            let k: usize = parse(toks[1])?;
            let x = unhex(toks[2])?;
            let y = unhex(toks[3])?;
            let msc: u32 = parse(toks[4])?;
            let go: i32 = parse(toks[5])?;
            let ge: i32 = parse(toks[6])?;
            if k == 0 || k > 1000 || msc > 1000 || !(0..=1000).contains(&go) || !(0..=1000).contains(&ge) {
                return Err("domain".into());
            }
            let m = sparse::find_kmer_matches(&x, &y, k);
            let h1 = sparse::find_kmer_matches_seq1_hashed(&sparse::hash_kmers(&x, k), &y, k);
            let h2 = sparse::find_kmer_matches_seq2_hashed(&x, &sparse::hash_kmers(&y, k), k);
            Ok(format!(
                "m={} h1={} h2={} {} {}",
                show_pairs(&m),
                show_pairs(&h1),
                show_pairs(&h2),
                lcs_fields(&m, k),
                sdp_fields(&m, k, msc, go, ge)
            ))
        }
        "lcs" => {
            if toks.len() != 3 {
                return Err("arity".into());
            }
            let k: usize = parse(toks[1])?;
            let ms = parse_pairs(toks[2])?;
            if k == 0 || k > 1000 || !strictly_sorted(&ms) || ms.iter().any(|m| m.0 > 100_000 || m.1 > 100_000) {
                return Err("domain".into());
            }
            Ok(lcs_fields(&ms, k))
        }
        "sdp" => {
            if toks.len() != 6 {
                return Err("arity".into());
            }
            let k: usize = parse(toks[1])?;
            let msc: u32 = parse(toks[2])?;
            let go: i32 = parse(toks[3])?;
            let ge: i32 = parse(toks[4])?;
            let ms = parse_pairs(toks[5])?;
            if k == 0
                || k > 1000
                || msc > 1000
                || !(0..=1000).contains(&go)
                || !(0..=1000).contains(&ge)
                || !strictly_sorted(&ms)
                || ms.iter().any(|m| m.0 > 100_000 || m.1 > 100_000)
            {
                return Err("domain".into());
            }
            Ok(sdp_fields(&ms, k, msc, go, ge))
        }
        "expand" => {
            if toks.len() != 6 {
                return Err("arity".into());
            }
            let k: usize = parse(toks[1])?;
            let mm: usize = parse(toks[2])?;
            let x = unhex(toks[3])?;
            let y = unhex(toks[4])?;
            let ms = parse_pairs(toks[5])?;
            if k == 0
                || !strictly_sorted(&ms)
                || ms.iter().any(|m| m.0 as usize + k > x.len() || m.1 as usize + k > y.len())
            {
                return Err("domain".into());
            }
            let ex = sparse::expand_kmer_matches(&x, &y, k, &ms, mm);
            let sorted = strictly_sorted(&ex);
            // lcskpp refuses unsorted input; the driver rejects an unsorted expansion before looking at the chain
            let chain = if sorted { lcs_fields(&ex, k) } else { "score=0 path=-".to_string() };
            Ok(format!("exp={} {}", show_pairs(&ex), chain))
        }
        _ => Err("unknown op".into()),
    }
}
