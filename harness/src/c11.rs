//! C11 — FASTA / FASTQ writers and readers, fastx sniffer.
//!
//! Record lists: records `/`-separated, fields `:`-separated, byte strings in hex (`-` empty), `_` = no description.
//!   FASTA  `<id>:<desc|_>:<seq>`            FASTQ  `<id>:<desc|_>:<seq>:<qual>`
//! Reader configurations `<cfgs>`: `/`-separated `<cap>:<mode>:<s1,s2,…>` — the real reader sits on
//!   `BufReader::with_capacity(cap, Fragmenting(bytes, schedule))` (`cap = 0`: `Reader::new`, the default 8 KiB);
//!   mode `i` = `records()` iterator, `r` = repeated `read(&mut record)` into ONE reused record.
//!
//! ops
//!   `w fa <wrap|none> <recs> <cfgs>`   real writer → bytes `F`; every configuration reads `F` back
//!   `w fq none <recs> <cfgs>`
//!   `lay fa <lrecs> <cfgs>`            bytes laid out HERE (not by the writer): `<id>:<desc>:<seq>:<n|r>:<w1,w2,…>`
//!                                      (terminator LF / CRLF, widths of the sequence lines, 0 = blank line)
//!   `lay fq <lrecs> <cfgs>`            `<id>:<desc>:<seq>:<qual>:<n|r>:<plus-line suffix hex>:<sw…>:<qw…>`
//!   `cut fa|fq <wrap|none> <recs> <offs> <cfg>`  writer bytes `F`, then the reader on `F[..c]` for every offset
//!                                      (`offs` = `all` or a list); per offset `<k>+<tail>`: the first `k` items are
//!                                      exactly the first `k` original records (checked ok), `tail` = the others
//!   `raw fa|fq|fx <hex> <cfgs>`        arbitrary bytes
//!   `fx fa|fq <wrap|none> <recs> <cfgs>`  writer bytes through `get_kind`, `get_kind_seek`, `EitherRecords`
//!
//! observation: `F:<hex>` (where bytes are produced here) followed by one `R:<items>` per configuration;
//! items `/`-separated: `r:<id>:<desc|_>:<seq>[:<qual>]:<check 0|1>` | `e:<class>`; `-` = no item.
//! `w` / `lay` / `raw fa|fq` append `N:<n1,n2,…>` = the number of `read` calls the underlying reader received while
//! the real parser ran under each configuration, and `L:<reads>:<len,len,…>` = std's `read_until(b'\n')` called
//! directly on the `BufReader` of the FIRST configuration until it returns 0 (line lengths, number of `read` calls);
//! `cut` prints `<k>+<tail>+<reads>` per offset.  These tie `RbV/Model/BufLines.lean` / `FastxStream.lean` to std.
use crate::util::*;
use bio::io::fasta::{self, FastaRead};
use bio::io::fastq::{self, FastqRead};
use bio::io::fastx::{self, Record as FxRecord};
use std::cell::Cell;
use std::io::{self, BufRead, BufReader, Cursor, Read};
use std::rc::Rc;

#[path = "fragio.rs"]
mod fragio;
use fragio::Fragmenting;

#[derive(Clone, Debug, PartialEq)]
struct Rec {
    id: Vec<u8>,
    desc: Option<Vec<u8>>,
    seq: Vec<u8>,
    qual: Option<Vec<u8>>,
}

fn opt_hex(d: &Option<Vec<u8>>) -> String {
    match d {
        None => "_".into(),
        Some(d) => hex(d),
    }
}

fn enc_rec(r: &Rec) -> String {
    match &r.qual {
        None => format!("{}:{}:{}", hex(&r.id), opt_hex(&r.desc), hex(&r.seq)),
        Some(q) => format!("{}:{}:{}:{}", hex(&r.id), opt_hex(&r.desc), hex(&r.seq), hex(q)),
    }
}

fn dec_desc(s: &str) -> Result<Option<Vec<u8>>, String> {
    if s == "_" {
        Ok(None)
    } else {
        Ok(Some(unhex(s)?))
    }
}

fn dec_recs(s: &str, fq: bool) -> Result<Vec<Rec>, String> {
    let mut out = vec![];
    for item in split_list(s, '/') {
        let f: Vec<&str> = item.split(':').collect();
        if f.len() != if fq { 4 } else { 3 } {
            return Err("record arity".into());
        }
        out.push(Rec {
            id: unhex(f[0])?,
            desc: dec_desc(f[1])?,
            seq: unhex(f[2])?,
            qual: if fq { Some(unhex(f[3])?) } else { None },
        });
    }
    Ok(out)
}

fn utf8(b: &[u8]) -> Result<&str, String> {
    std::str::from_utf8(b).map_err(|_| "not utf8".to_string())
}

#[derive(Clone)]
struct Cfg {
    cap: usize,
    mode: char,
    sched: Vec<usize>,
}

fn dec_cfgs(s: &str) -> Result<Vec<Cfg>, String> {
    let mut out = vec![];
    for item in split_list(s, '/') {
        let f: Vec<&str> = item.split(':').collect();
        if f.len() != 3 || !(f[1] == "i" || f[1] == "r") {
            return Err("cfg".into());
        }
        let sched: Vec<usize> = parse_list(f[2], ',')?;
        if sched.is_empty() || sched.iter().any(|&x| x == 0) {
            return Err("cfg sched".into());
        }
        out.push(Cfg { cap: parse(f[0])?, mode: f[1].chars().next().unwrap(), sched });
    }
    if out.is_empty() {
        return Err("no cfg".into());
    }
    Ok(out)
}

/// counts the `read` calls that reach the data source (`Fragmenting` forwards every call exactly once)
struct Counting<R> {
    inner: R,
    n: Rc<Cell<usize>>,
}

impl<R: Read> Read for Counting<R> {
    fn read(&mut self, buf: &mut [u8]) -> io::Result<usize> {
        self.n.set(self.n.get() + 1);
        self.inner.read(buf)
    }
}

fn bufreader_counting(bytes: &[u8], c: &Cfg) -> (BufReader<Fragmenting<Counting<Cursor<Vec<u8>>>>>, Rc<Cell<usize>>) {
    let n = Rc::new(Cell::new(0));
    let fr = Fragmenting::new(Counting { inner: Cursor::new(bytes.to_vec()), n: n.clone() }, c.sched.clone(), false);
    let br = if c.cap == 0 { BufReader::new(fr) } else { BufReader::with_capacity(c.cap, fr) };
    (br, n)
}

/// std's `read_until(b'\n')` on its own: `<reads>:<line lengths>`
fn std_lines(bytes: &[u8], c: &Cfg) -> String {
    let (mut br, n) = bufreader_counting(bytes, c);
    let mut lens: Vec<usize> = vec![];
    let mut total = 0usize;
    loop {
        let mut line: Vec<u8> = vec![];
        match br.read_until(b'\n', &mut line) {
            Ok(0) => break,
            Ok(k) => {
                // the line must be the next `k` bytes of the input
                if k != line.len() || total + k > bytes.len() || bytes[total..total + k] != line[..] {
                    return format!("{}:x", n.get());
                }
                total += k;
                lens.push(k);
            }
            Err(_) => return format!("{}:x", n.get()),
        }
        if lens.len() > bytes.len() + 8 {
            return format!("{}:x", n.get());
        }
    }
    format!("{}:{}", n.get(), join(&lens, ","))
}

fn bufreader(bytes: &[u8], c: &Cfg) -> BufReader<Fragmenting<Cursor<Vec<u8>>>> {
    let fr = Fragmenting::new(Cursor::new(bytes.to_vec()), c.sched.clone(), false);
    if c.cap == 0 {
        BufReader::new(fr)
    } else {
        BufReader::with_capacity(c.cap, fr)
    }
}

fn io_class(e: &io::Error) -> &'static str {
    if e.kind() == io::ErrorKind::InvalidData {
        "utf8"
    } else if e.to_string().contains("Expected >") {
        "start"
    } else if e.kind() == io::ErrorKind::UnexpectedEof {
        "eof"
    } else {
        "io"
    }
}

fn fq_class(e: &fastq::Error) -> &'static str {
    match e {
        fastq::Error::MissingAt => "at",
        fastq::Error::IncompleteRecord => "inc",
        fastq::Error::ReadError(e) => io_class(e),
        _ => "other",
    }
}

/// one reader item in canonical form
#[derive(Clone, Debug, PartialEq)]
enum Item {
    R(Rec, bool),
    E(String),
}

fn enc_item(i: &Item) -> String {
    match i {
        Item::R(r, ok) => format!("r:{}:{}", enc_rec(r), if *ok { 1 } else { 0 }),
        Item::E(c) => format!("e:{}", c),
    }
}

fn enc_items(v: &[Item]) -> String {
    if v.is_empty() {
        "-".into()
    } else {
        v.iter().map(enc_item).collect::<Vec<_>>().join("/")
    }
}

fn fa_item(r: &fasta::Record) -> Item {
    Item::R(
        Rec {
            id: r.id().as_bytes().to_vec(),
            desc: r.desc().map(|d| d.as_bytes().to_vec()),
            seq: r.seq().to_vec(),
            qual: None,
        },
        r.check().is_ok(),
    )
}

fn fq_item(r: &fastq::Record) -> Item {
    Item::R(
        Rec {
            id: r.id().as_bytes().to_vec(),
            desc: r.desc().map(|d| d.as_bytes().to_vec()),
            seq: r.seq().to_vec(),
            qual: Some(r.qual().to_vec()),
        },
        r.check().is_ok(),
    )
}

fn read_fasta<B: io::BufRead>(rd: B, mode: char, limit: usize) -> Vec<Item> {
    let mut out = vec![];
    if mode == 'i' {
        for r in fasta::Reader::from_bufread(rd).records() {
            match r {
                Ok(r) => out.push(fa_item(&r)),
                Err(e) => out.push(Item::E(io_class(&e).into())),
            }
            if out.len() > limit {
                out.push(Item::E("LOOP".into()));
                break;
            }
        }
    } else {
        let mut reader = fasta::Reader::from_bufread(rd);
        let mut rec = fasta::Record::new();
        loop {
            match reader.read(&mut rec) {
                Ok(()) => {
                    if rec.is_empty() {
                        break;
                    }
                    out.push(fa_item(&rec));
                }
                Err(e) => {
                    out.push(Item::E(io_class(&e).into()));
                    break;
                }
            }
            if out.len() > limit {
                out.push(Item::E("LOOP".into()));
                break;
            }
        }
    }
    out
}

fn read_fastq<B: io::BufRead>(rd: B, mode: char, limit: usize) -> Vec<Item> {
    let mut out = vec![];
    if mode == 'i' {
        for r in fastq::Reader::from_bufread(rd).records() {
            match r {
                Ok(r) => out.push(fq_item(&r)),
                Err(e) => out.push(Item::E(fq_class(&e).into())),
            }
            if out.len() > limit {
                out.push(Item::E("LOOP".into()));
                break;
            }
        }
    } else {
        let mut reader = fastq::Reader::from_bufread(rd);
        let mut rec = fastq::Record::new();
        loop {
            match reader.read(&mut rec) {
                Ok(()) => {
                    if rec.is_empty() {
                        break;
                    }
                    out.push(fq_item(&rec));
                }
                Err(e) => out.push(Item::E(fq_class(&e).into())),
            }
            if out.len() > limit {
                out.push(Item::E("LOOP".into()));
                break;
            }
        }
    }
    out
}

fn read_cfg(bytes: &[u8], fq: bool, c: &Cfg) -> (Vec<Item>, usize) {
    let limit = bytes.len() + 8;
    let (br, n) = bufreader_counting(bytes, c);
    let items = if fq { read_fastq(br, c.mode, limit) } else { read_fasta(br, c.mode, limit) };
    (items, n.get())
}

/// ` R:… R:… N:n1,n2,… L:<reads>:<lens>` for all configurations
fn read_all(bytes: &[u8], fq: bool, cfgs: &[Cfg]) -> String {
    let mut out = String::new();
    let mut ns = vec![];
    for c in cfgs {
        let (items, n) = read_cfg(bytes, fq, c);
        out.push_str(&format!(" R:{}", enc_items(&items)));
        ns.push(n);
    }
    out.push_str(&format!(" N:{} L:{}", join(&ns, ","), std_lines(bytes, &cfgs[0])));
    out
}

fn dec_wrap(s: &str) -> Result<Option<usize>, String> {
    if s == "none" {
        Ok(None)
    } else {
        let w: usize = parse(s)?;
        if w == 0 {
            return Err("wrap 0".into());
        }
        Ok(Some(w))
    }
}

/// the real writers; `alt` selects `write_record` on a `Record` instead of `write`
fn write_real(recs: &[Rec], fq: bool, wrap: Option<usize>, alt: bool) -> Result<Vec<u8>, String> {
    let mut buf: Vec<u8> = vec![];
    if fq {
        let mut w = fastq::Writer::new(&mut buf);
        for r in recs {
            let id = utf8(&r.id)?;
            let desc = match &r.desc {
                Some(d) => Some(utf8(d)?),
                None => None,
            };
            let q = r.qual.as_ref().ok_or("qual")?;
            utf8(&r.seq)?;
            utf8(q)?;
            if alt {
                w.write_record(&fastq::Record::with_attrs(id, desc, &r.seq, q)).map_err(|e| e.to_string())?;
            } else {
                w.write(id, desc, &r.seq, q).map_err(|e| e.to_string())?;
            }
        }
        w.flush().map_err(|e| e.to_string())?;
    } else {
        let mut w = fasta::Writer::new(&mut buf);
        w.set_linewrap(wrap);
        for r in recs {
            let id = utf8(&r.id)?;
            let desc = match &r.desc {
                Some(d) => Some(utf8(d)?),
                None => None,
            };
            utf8(&r.seq)?;
            if alt {
                w.write_record(&fasta::Record::with_attrs(id, desc, &r.seq)).map_err(|e| e.to_string())?;
            } else {
                w.write(id, desc, &r.seq).map_err(|e| e.to_string())?;
            }
        }
        w.flush().map_err(|e| e.to_string())?;
    }
    Ok(buf)
}

fn pieces(s: &[u8], widths: &[usize]) -> Result<Vec<Vec<u8>>, String> {
    if widths.iter().sum::<usize>() != s.len() {
        return Err("widths do not add up".into());
    }
    let mut out = vec![];
    let mut p = 0;
    for &w in widths {
        out.push(s[p..p + w].to_vec());
        p += w;
    }
    Ok(out)
}

/// layout given by the case line (independent of the writers)
fn layout(s: &str, fq: bool) -> Result<Vec<u8>, String> {
    let mut f = vec![];
    for item in split_list(s, '/') {
        let t: Vec<&str> = item.split(':').collect();
        if t.len() != if fq { 8 } else { 5 } {
            return Err("layout arity".into());
        }
        let id = unhex(t[0])?;
        let desc = dec_desc(t[1])?;
        let seq = unhex(t[2])?;
        let (eolt, rest) = if fq { (t[4], 5) } else { (t[3], 4) };
        let eol: &[u8] = match eolt {
            "n" => b"\n",
            "r" => b"\r\n",
            _ => return Err("eol".into()),
        };
        f.push(if fq { b'@' } else { b'>' });
        f.extend_from_slice(&id);
        if let Some(d) = &desc {
            f.push(b' ');
            f.extend_from_slice(d);
        }
        f.extend_from_slice(eol);
        if fq {
            let qual = unhex(t[3])?;
            let plus = unhex(t[rest])?;
            let sw: Vec<usize> = parse_list(t[rest + 1], ',')?;
            let qw: Vec<usize> = parse_list(t[rest + 2], ',')?;
            for p in pieces(&seq, &sw)? {
                f.extend_from_slice(&p);
                f.extend_from_slice(eol);
            }
            f.push(b'+');
            f.extend_from_slice(&plus);
            f.extend_from_slice(eol);
            for p in pieces(&qual, &qw)? {
                f.extend_from_slice(&p);
                f.extend_from_slice(eol);
            }
        } else {
            let sw: Vec<usize> = parse_list(t[rest], ',')?;
            for p in pieces(&seq, &sw)? {
                f.extend_from_slice(&p);
                f.extend_from_slice(eol);
            }
        }
    }
    Ok(f)
}

fn kind_name(k: &io::Result<fastx::Kind>) -> String {
    match k {
        Ok(fastx::Kind::FASTA) => "fa".into(),
        Ok(fastx::Kind::FASTQ) => "fq".into(),
        Err(e) => format!("e{}", io_class(e)),
    }
}

fn fx_item(r: &fastx::EitherRecord) -> Item {
    Item::R(
        Rec {
            id: FxRecord::id(r).as_bytes().to_vec(),
            desc: FxRecord::desc(r).map(|d| d.as_bytes().to_vec()),
            seq: FxRecord::seq(r).to_vec(),
            qual: FxRecord::qual(r).map(|q| q.to_vec()),
        },
        FxRecord::check(r).is_ok(),
    )
}

/// all sniffing entry points on `bytes`: `K:<get_kind>,<get_kind_seek>[+moved],<EitherRecords::kind>` and the items
/// via `get_kind` + matching reader and via `EitherRecords`; `N:` = number of `read` calls the data source received on
/// the first path (`read_exact` of `get_kind` + the refills of the `BufReader` on the `Chain`)
fn run_fx(bytes: &[u8], c: &Cfg) -> String {
    let limit = bytes.len() + 8;
    // 1. get_kind on the raw (fragmenting) reader, then the matching parser on the returned reader
    let n1 = Rc::new(Cell::new(0));
    let fr = Fragmenting::new(Counting { inner: Cursor::new(bytes.to_vec()), n: n1.clone() }, c.sched.clone(), false);
    let (k1, items1) = match fastx::get_kind(fr) {
        Ok((rd, fastx::Kind::FASTA)) => {
            let br = if c.cap == 0 { BufReader::new(rd) } else { BufReader::with_capacity(c.cap, rd) };
            ("fa".to_string(), read_fasta(br, c.mode, limit))
        }
        Ok((rd, fastx::Kind::FASTQ)) => {
            let br = if c.cap == 0 { BufReader::new(rd) } else { BufReader::with_capacity(c.cap, rd) };
            ("fq".to_string(), read_fastq(br, c.mode, limit))
        }
        Err(e) => (format!("e{}", io_class(&e)), vec![]),
    };
    // 2. get_kind_seek must leave the stream position unchanged
    let mut cur = Cursor::new(bytes.to_vec());
    let k2r = fastx::get_kind_seek(&mut cur);
    let mut rest = vec![];
    let _ = cur.read_to_end(&mut rest);
    let mut k2 = kind_name(&k2r);
    if k2r.is_ok() && rest != bytes {
        k2.push_str("+moved");
    }
    // 3. EitherRecords
    let mut er = fastx::EitherRecords::new(bufreader(bytes, c));
    let k3 = kind_name(&er.kind());
    let mut items3 = vec![];
    for r in &mut er {
        match r {
            Ok(r) => items3.push(fx_item(&r)),
            Err(fastx::Error::IO(e)) => items3.push(Item::E(io_class(&e).into())),
            Err(fastx::Error::FASTQ(e)) => items3.push(Item::E(fq_class(&e).into())),
        }
        if items3.len() > limit {
            items3.push(Item::E("LOOP".into()));
            break;
        }
    }
    format!("K:{},{},{} R:{} R:{} N:{}", k1, k2, k3, enc_items(&items1), enc_items(&items3), n1.get())
}

pub fn exec(toks: &[&str]) -> Result<String, String> {
    if toks.len() < 2 {
        return Err("arity".into());
    }
    let fq = match toks[1] {
        "fa" => false,
        "fq" => true,
        "fx" if toks[0] == "raw" => false,
        _ => return Err("format".into()),
    };
    match toks[0] {
        "w" | "fx" => {
            if toks.len() != 5 {
                return Err("arity".into());
            }
            let wrap = dec_wrap(toks[2])?;
            if fq && wrap.is_some() {
                return Err("fastq has no wrap".into());
            }
            let recs = dec_recs(toks[3], fq)?;
            let cfgs = dec_cfgs(toks[4])?;
            let f = write_real(&recs, fq, wrap, cfgs[0].mode == 'r')?;
            let mut out = format!("F:{}", hex(&f));
            if toks[0] == "w" {
                out.push_str(&read_all(&f, fq, &cfgs));
            } else {
                for c in &cfgs {
                    out.push(' ');
                    out.push_str(&run_fx(&f, c));
                }
            }
            Ok(out)
        }
        "lay" => {
            if toks.len() != 4 {
                return Err("arity".into());
            }
            let f = layout(toks[2], fq)?;
            let cfgs = dec_cfgs(toks[3])?;
            let mut out = format!("F:{}", hex(&f));
            out.push_str(&read_all(&f, fq, &cfgs));
            Ok(out)
        }
        "cut" => {
            if toks.len() != 6 {
                return Err("arity".into());
            }
            let wrap = dec_wrap(toks[2])?;
            if fq && wrap.is_some() {
                return Err("fastq has no wrap".into());
            }
            let recs = dec_recs(toks[3], fq)?;
            let cfgs = dec_cfgs(toks[5])?;
            if cfgs.len() != 1 {
                return Err("one cfg".into());
            }
            let f = write_real(&recs, fq, wrap, false)?;
            let offs: Vec<usize> = if toks[4] == "all" { (0..=f.len()).collect() } else { parse_list(toks[4], ',')? };
            let mut out = format!("F:{}", hex(&f));
            for &c in &offs {
                if c > f.len() {
                    return Err("offset beyond file".into());
                }
                let (items, reads) = read_cfg(&f[..c], fq, &cfgs[0]);
                let mut k = 0;
                while k < items.len() && k < recs.len() && items[k] == Item::R(recs[k].clone(), true) {
                    k += 1;
                }
                out.push_str(&format!(" {}+{}+{}", k, enc_items(&items[k..]), reads));
            }
            Ok(out)
        }
        "raw" => {
            if toks.len() != 4 {
                return Err("arity".into());
            }
            let f = unhex(toks[2])?;
            let cfgs = dec_cfgs(toks[3])?;
            let mut out = String::new();
            if toks[1] == "fx" {
                for (i, c) in cfgs.iter().enumerate() {
                    if i > 0 {
                        out.push(' ');
                    }
                    out.push_str(&run_fx(&f, c));
                }
            } else {
                out.push_str(read_all(&f, fq, &cfgs).trim_start());
            }
            Ok(out)
        }
        _ => Err("op".into()),
    }
}

// ------------------------------------------------------------------------------------------------ generator

const IDCH: &[u8] = b"abcdefghijklmnopqrstuvwxyzABCDEFGHIJKLMNOPQRSTUVWXYZ0123456789|._-:=/#";
const DESCCH: &[u8] = b"abcXYZ019 =;,.>@+|\t  ";
const FA_SEQ: &[u8] = b"ACGTNacgtnRYKMSW*-@+";
const FQ_SEQ: &[u8] = b"ACGTNacgtn*-.>@+";

fn gen_id(rng: &mut Rng) -> Vec<u8> {
    if rng.chance(1, 40) {
        return vec![];
    }
    let l = 1 + rng.below(8);
    let mut id = rng.seq(IDCH, l);
    if rng.chance(1, 10) {
        id.extend_from_slice("é日".as_bytes());
    }
    if rng.chance(1, 12) {
        id.insert(0, *rng.pick(b">@+"));
    }
    id
}

fn gen_desc(rng: &mut Rng) -> Option<Vec<u8>> {
    if rng.chance(2, 5) {
        return None;
    }
    let l = 1 + rng.below(12);
    let mut d = rng.seq(DESCCH, l);
    if rng.chance(1, 15) {
        let p = rng.below(d.len());
        d.insert(p, b'\r');
    }
    if rng.chance(1, 10) {
        d.extend_from_slice("ü".as_bytes());
    }
    while matches!(d.last(), Some(b' ') | Some(b'\t') | Some(b'\r')) {
        d.pop();
    }
    if d.is_empty() {
        d.push(b'd');
    }
    Some(d)
}

fn gen_rec(rng: &mut Rng, fq: bool, maxlen: usize) -> Rec {
    let len = match rng.below(8) {
        0 => 1,
        1 => 2,
        2 => 1 + rng.below(6),
        _ => 1 + rng.below(maxlen),
    };
    let mut seq = rng.seq(if fq { FQ_SEQ } else { FA_SEQ }, len);
    if fq && seq[0] == b'+' {
        seq[0] = b'A';
    }
    let qual = if fq {
        let mut q: Vec<u8> = (0..len).map(|_| 33 + rng.below(94) as u8).collect();
        if rng.chance(1, 3) {
            q[0] = *rng.pick(b"@+");
        }
        if rng.chance(1, 8) {
            // a quality line that looks like a header or a separator
            for (i, c) in b"@id +".iter().enumerate() {
                if i < q.len() && *c != b' ' {
                    q[i] = *c;
                }
            }
        }
        Some(q)
    } else {
        None
    };
    Rec { id: gen_id(rng), desc: gen_desc(rng), seq, qual }
}

fn gen_recs(rng: &mut Rng, fq: bool, maxrecs: usize, maxlen: usize) -> Vec<Rec> {
    let n = match rng.below(6) {
        0 => 1,
        _ => 1 + rng.below(maxrecs),
    };
    (0..n).map(|_| gen_rec(rng, fq, maxlen)).collect()
}

fn gen_sched(rng: &mut Rng) -> Vec<usize> {
    match rng.below(6) {
        0 => vec![1],
        1 => vec![100000],
        2 => (0..1 + rng.below(6)).map(|_| 1 + rng.below(3)).collect(),
        3 => (0..1 + rng.below(6)).map(|_| 1 + rng.below(12)).collect(),
        4 => vec![1, 1, 100000, 2],
        _ => vec![1 + rng.below(64)],
    }
}

fn gen_cfg(rng: &mut Rng) -> String {
    let cap = match rng.below(8) {
        0 => 1,
        1 => 2,
        2 => 3,
        3 => 0,
        4 => 64,
        _ => 1 + rng.below(64),
    };
    format!("{}:{}:{}", cap, if rng.chance(1, 2) { "i" } else { "r" }, join(&gen_sched(rng), ","))
}

fn gen_cfgs(rng: &mut Rng, n: usize) -> String {
    (0..n).map(|_| gen_cfg(rng)).collect::<Vec<_>>().join("/")
}

fn gen_wrap(rng: &mut Rng, recs: &[Rec]) -> String {
    let l = recs[rng.below(recs.len())].seq.len();
    match rng.below(8) {
        0 | 1 => "none".into(),
        2 => "1".into(),
        3 => l.to_string(),
        4 => (l + 1).to_string(),
        5 => l.saturating_sub(1).max(1).to_string(),
        6 => "60".into(),
        _ => (1 + rng.below(12)).to_string(),
    }
}

fn recs_str(recs: &[Rec]) -> String {
    if recs.is_empty() {
        "-".into()
    } else {
        recs.iter().map(enc_rec).collect::<Vec<_>>().join("/")
    }
}

/// random split of `len` into line widths (zeros = blank lines, only where `blanks`)
fn widths(rng: &mut Rng, len: usize, blanks: bool) -> Vec<usize> {
    let mut out = vec![];
    let mut left = len;
    let uniform = if rng.chance(1, 2) { Some(1 + rng.below(9)) } else { None };
    while left > 0 {
        if blanks && rng.chance(1, 10) {
            out.push(0);
            continue;
        }
        let w = match uniform {
            Some(u) => u.min(left),
            None => 1 + rng.below(left.min(10)),
        };
        out.push(w);
        left -= w;
    }
    if blanks && rng.chance(1, 8) {
        out.push(0);
    }
    out
}

fn gen_layout(rng: &mut Rng, recs: &[Rec], fq: bool) -> String {
    let file_eol = if rng.chance(1, 2) { "r" } else { "n" };
    recs.iter()
        .map(|r| {
            let eol = if rng.chance(1, 8) { if file_eol == "r" { "n" } else { "r" } } else { file_eol };
            if fq {
                let q = r.qual.as_ref().unwrap();
                // sequence pieces must not start with '+'
                let mut sw;
                loop {
                    let bl = rng.chance(1, 4);
                    sw = if rng.chance(1, 3) { vec![r.seq.len()] } else { widths(rng, r.seq.len(), bl) };
                    let mut p = 0;
                    let mut ok = true;
                    for &w in &sw {
                        if w > 0 && r.seq[p] == b'+' {
                            ok = false;
                        }
                        p += w;
                    }
                    if ok {
                        break;
                    }
                }
                // the same number of quality lines (any widths, blank ones allowed)
                let k = sw.len();
                let mut qw = vec![0usize; k];
                let mut left = q.len();
                let samew = rng.chance(2, 3);
                for i in 0..k {
                    if samew {
                        qw[i] = sw[i];
                        continue;
                    }
                    let w = if i + 1 == k { left } else if rng.chance(1, 2) { sw[i].min(left) } else { rng.below(left + 1) };
                    qw[i] = w;
                    left -= w;
                }
                let plus = if rng.chance(1, 4) {
                    let mut p = r.id.clone();
                    if let Some(d) = &r.desc {
                        p.push(b' ');
                        p.extend_from_slice(d);
                    }
                    p
                } else {
                    vec![]
                };
                format!("{}:{}:{}:{}:{}", enc_rec(r), eol, hex(&plus), join(&sw, ","), join(&qw, ","))
            } else {
                let bl = rng.chance(1, 4);
                let sw = widths(rng, r.seq.len(), bl);
                format!("{}:{}:{}", enc_rec(r), eol, join(&sw, ","))
            }
        })
        .collect::<Vec<_>>()
        .join("/")
}

fn garbage(rng: &mut Rng, fq: bool) -> Vec<u8> {
    let base: Vec<u8> = {
        let recs = gen_recs(rng, fq, 3, 12);
        let wrap = if fq { None } else if rng.chance(1, 2) { Some(1 + rng.below(6)) } else { None };
        let ascii: Vec<Rec> = recs
            .into_iter()
            .map(|mut r| {
                r.id.retain(|b| *b < 128);
                if let Some(d) = &mut r.desc {
                    d.retain(|b| *b < 128);
                    if d.is_empty() {
                        d.push(b'x');
                    }
                }
                r
            })
            .collect();
        write_real(&ascii, fq, wrap, false).unwrap_or_default()
    };
    const STRUCT: &[u8] = b">@+\n\r \t\n\n>@+A";
    match rng.below(6) {
        0 => {
            // purely structural characters
            {
                let l = rng.below(24);
                rng.seq(STRUCT, l)
            }
        }
        1 => {
            // random bytes (mostly ASCII)
            (0..rng.below(40)).map(|_| if rng.chance(1, 10) { rng.below(256) as u8 } else { rng.below(128) as u8 }).collect()
        }
        _ => {
            // mutations of a valid file: replace / insert / delete with structural characters
            let mut f = base;
            let k = 1 + rng.below(4);
            for _ in 0..k {
                if f.is_empty() {
                    break;
                }
                let p = rng.below(f.len());
                match rng.below(4) {
                    0 => f[p] = *rng.pick(STRUCT),
                    1 => f.insert(p, *rng.pick(STRUCT)),
                    2 => {
                        f.remove(p);
                    }
                    _ => {
                        // delete a whole line
                        let e = f[p..].iter().position(|&b| b == b'\n').map(|x| p + x + 1).unwrap_or(f.len());
                        f.drain(p..e);
                    }
                }
            }
            if rng.chance(1, 20) {
                let p = rng.below(f.len() + 1);
                f.insert(p, 0xC3); // a lone UTF-8 lead byte
            }
            if rng.chance(1, 12) {
                // non-ASCII Unicode white space (`trim_end`, FASTA header split) and near misses (U+200B, U+180E, U+0084,
                // U+00A1 are not white space), at the end of a line or anywhere
                const WS: &[&str] = &[
                    "\u{85}", "\u{a0}", "\u{1680}", "\u{2000}", "\u{2005}", "\u{200a}", "\u{2028}", "\u{2029}", "\u{202f}",
                    "\u{205f}", "\u{3000}", "\u{200b}", "\u{180e}", "\u{84}", "\u{a1}", "\u{2060}", "\u{feff}",
                ];
                let n = 1 + rng.below(2);
                for _ in 0..n {
                    let ends: Vec<usize> = f.iter().enumerate().filter(|(_, &b)| b == b'\n').map(|(i, _)| i).collect();
                    let p = if !ends.is_empty() && rng.chance(2, 3) { ends[rng.below(ends.len())] } else { rng.below(f.len() + 1) };
                    // only at a character boundary, so that the file stays valid UTF-8 where it was
                    if p < f.len() && (f[p] & 0xC0) == 0x80 {
                        continue;
                    }
                    let ws = WS[rng.below(WS.len())].as_bytes();
                    for (i, b) in ws.iter().enumerate() {
                        f.insert(p + i, *b);
                    }
                }
            }
            f
        }
    }
}

pub fn gen(tier: &str, rng: &mut Rng, out: &mut Vec<String>) {
    let thorough = tier == "thorough";
    let (n_w, n_lay, n_cut, n_raw, n_fx, n_big) =
        if thorough { (5000, 5000, 2500, 20000, 2000, 60) } else { (1200, 1200, 500, 4500, 400, 6) };
    for i in 0..n_w {
        let fq = i % 2 == 1;
        let recs = gen_recs(rng, fq, 5, 40);
        let wrap = if fq { "none".to_string() } else { gen_wrap(rng, &recs) };
        out.push(format!("w {} {} {} {}", if fq { "fq" } else { "fa" }, wrap, recs_str(&recs), gen_cfgs(rng, 6)));
    }
    for i in 0..n_lay {
        let fq = i % 2 == 1;
        let recs = gen_recs(rng, fq, 4, 40);
        out.push(format!("lay {} {} {}", if fq { "fq" } else { "fa" }, gen_layout(rng, &recs, fq), gen_cfgs(rng, 4)));
    }
    for i in 0..n_cut {
        let fq = i % 2 == 1;
        let recs = gen_recs(rng, fq, 3, 14);
        let wrap = if fq { "none".to_string() } else { gen_wrap(rng, &recs) };
        out.push(format!("cut {} {} {} all {}", if fq { "fq" } else { "fa" }, wrap, recs_str(&recs), gen_cfg(rng)));
    }
    for i in 0..n_raw {
        let kind = ["fa", "fq", "fx"][i % 3];
        let gfq = if kind == "fx" { rng.chance(1, 2) } else { kind == "fq" };
        let g = garbage(rng, gfq);
        out.push(format!("raw {} {} {}", kind, hex(&g), gen_cfgs(rng, 2)));
    }
    for i in 0..n_fx {
        let fq = i % 2 == 1;
        let recs = gen_recs(rng, fq, 4, 30);
        let wrap = if fq { "none".to_string() } else { gen_wrap(rng, &recs) };
        out.push(format!("fx {} {} {} {}", if fq { "fq" } else { "fa" }, wrap, recs_str(&recs), gen_cfgs(rng, 2)));
    }
    // larger files: several refills of the default 8 KiB buffer, random offsets
    for i in 0..n_big {
        let fq = i % 2 == 1;
        let n = 20 + rng.below(40);
        let recs: Vec<Rec> = (0..n).map(|_| gen_rec(rng, fq, 400)).collect();
        let wrap = if fq { "none".to_string() } else { rng.pick(&["none", "60", "7"]).to_string() };
        let cfgs = format!("0:i:100000/0:r:{}/64:i:8192,1,5", 1 + rng.below(5000));
        out.push(format!("w {} {} {} {}", if fq { "fq" } else { "fa" }, wrap, recs_str(&recs), cfgs));
    }
}
