#!/bin/sh
# Build the framework from files on disk only (offline).
set -e
cd "$(dirname "$0")"
mkdir -p .work evidence replays
(cd lean && lake build)
ln -sfn "${VERIF_REPO:-/repo}" harness/bio-src
(cd harness && CARGO_NET_OFFLINE=true cargo build --release --offline)
