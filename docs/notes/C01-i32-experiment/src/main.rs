//! Experiments around the i32 limits of bio::alignment::pairwise::Aligner.
//!
//! usage:
//!   rt single <mode> <xspec> <yspec> <sAA> <sAC> <sCA> <sCC> <go> <ge> <xp> <xs> <yp> <ys>
//!        mode  = custom | global | semiglobal | local
//!        xspec = e.g. `A*10000` or a literal like `AACA`
//!        penalties: integer or `min` (= MIN_SCORE)
//!   rt env <B> <mode: custom|global> <len> <npairs> [verbose]
//!        E5/E6/E7-style run: random pairs over {A,C}, table entries +-B, go = ge = -B,
//!        clips from {MIN_SCORE, 0, -B} (mode custom) or all MIN_SCORE (mode global)
//!
//! every Aligner call runs in its own thread (catch_unwind + watchdog); a HANG terminates the process (exit 3)
use bio::alignment::pairwise::{Aligner, MatchFunc, Scoring, MIN_SCORE};
use bio::alignment::{Alignment, AlignmentOperation};
use std::cell::RefCell;
use std::cmp::max;
use std::panic;
use std::sync::mpsc;
use std::time::{Duration, Instant};

const WATCHDOG: Duration = Duration::from_secs(20);

#[derive(Clone, Debug)]
struct Tab {
    t: [i32; 4], // AA AC CA CC   (x symbol first)
}
fn ix(c: u8) -> usize {
    if c == b'C' {
        1
    } else {
        0
    }
}
impl MatchFunc for Tab {
    fn score(&self, a: u8, b: u8) -> i32 {
        self.t[ix(a) * 2 + ix(b)]
    }
}

#[derive(Clone, Debug)]
struct Spec {
    mode: String,
    x: Vec<u8>,
    y: Vec<u8>,
    tab: Tab,
    go: i32,
    ge: i32,
    clips: [i32; 4], // xp xs yp ys
}

impl Spec {
    fn scoring(&self) -> Scoring<Tab> {
        Scoring {
            gap_open: self.go,
            gap_extend: self.ge,
            match_fn: self.tab.clone(),
            match_scores: None,
            xclip_prefix: self.clips[0],
            xclip_suffix: self.clips[1],
            yclip_prefix: self.clips[2],
            yclip_suffix: self.clips[3],
        }
    }
    fn effective_clips(&self) -> [i32; 4] {
        match self.mode.as_str() {
            "global" => [MIN_SCORE; 4],
            "semiglobal" => [MIN_SCORE, MIN_SCORE, 0, 0],
            "local" => [0; 4],
            _ => self.clips,
        }
    }
    fn describe(&self) -> String {
        let sh = |s: &[u8]| {
            if s.len() <= 80 {
                String::from_utf8_lossy(s).to_string()
            } else {
                format!("{}..(len {})", String::from_utf8_lossy(&s[..20]), s.len())
            }
        };
        format!(
            "mode={} x={} y={} tab[AA,AC,CA,CC]={:?} go={} ge={} clips[xp,xs,yp,ys]={:?}",
            self.mode,
            sh(&self.x),
            sh(&self.y),
            self.tab.t,
            self.go,
            self.ge,
            self.clips
        )
    }
}

thread_local! { static LAST_PANIC: RefCell<String> = RefCell::new(String::new()); }

enum Outcome {
    Ok(Alignment, Duration),
    Panic(String, Duration),
    Hang,
}

fn run(spec: &Spec) -> Outcome {
    let (tx, rx) = mpsc::channel();
    let sp = spec.clone();
    std::thread::Builder::new()
        .stack_size(64 << 20)
        .spawn(move || {
            let t0 = Instant::now();
            let r = panic::catch_unwind(panic::AssertUnwindSafe(|| {
                let mut al = Aligner::with_scoring(sp.scoring());
                match sp.mode.as_str() {
                    "custom" => al.custom(&sp.x, &sp.y),
                    "global" => al.global(&sp.x, &sp.y),
                    "semiglobal" => al.semiglobal(&sp.x, &sp.y),
                    "local" => al.local(&sp.x, &sp.y),
                    m => panic!("unknown mode {}", m),
                }
            }));
            let dt = t0.elapsed();
            let out = match r {
                Ok(a) => Outcome::Ok(a, dt),
                Err(_) => Outcome::Panic(LAST_PANIC.with(|p| p.borrow().clone()), dt),
            };
            let _ = tx.send(out);
        })
        .unwrap();
    match rx.recv_timeout(WATCHDOG) {
        Ok(o) => o,
        Err(_) => Outcome::Hang,
    }
}

fn ops_string(ops: &[AlignmentOperation], limit: usize) -> String {
    let mut s = String::new();
    for o in ops.iter().take(limit) {
        match o {
            AlignmentOperation::Match => s.push('M'),
            AlignmentOperation::Subst => s.push('S'),
            AlignmentOperation::Ins => s.push('I'),
            AlignmentOperation::Del => s.push('D'),
            AlignmentOperation::Xclip(n) => s.push_str(&format!("[X{}]", n)),
            AlignmentOperation::Yclip(n) => s.push_str(&format!("[Y{}]", n)),
        }
    }
    if ops.len() > limit {
        s.push_str(&format!("..(+{} more, {} total)", ops.len() - limit, ops.len()));
    }
    if ops.is_empty() {
        s.push('-');
    }
    s
}

/// score of the path reported by the aligner, recomputed in i64 from the operations (documented model:
/// a run of k Ins or k Del costs go + k*ge, clips cost their penalty, Match/Subst cost the table entry)
fn path_score_i64(spec: &Spec, a: &Alignment) -> Option<i64> {
    let clips = spec.effective_clips();
    let filtered = spec.mode == "semiglobal" || spec.mode == "local"; // clip operations removed there
    let (mut i, mut j) = if filtered { (a.xstart, a.ystart) } else { (0usize, 0usize) };
    let mut sc: i64 = 0;
    if filtered {
        if a.xstart > 0 {
            sc += clips[0] as i64;
        }
        if a.ystart > 0 {
            sc += clips[2] as i64;
        }
        if a.xend < a.xlen {
            sc += clips[1] as i64;
        }
        if a.yend < a.ylen {
            sc += clips[3] as i64;
        }
    }
    let mut prev: Option<AlignmentOperation> = None;
    for &o in &a.operations {
        match o {
            AlignmentOperation::Match | AlignmentOperation::Subst => {
                if i >= spec.x.len() || j >= spec.y.len() {
                    return None;
                }
                sc += spec.tab.score(spec.x[i], spec.y[j]) as i64;
                i += 1;
                j += 1;
            }
            AlignmentOperation::Ins => {
                if prev != Some(AlignmentOperation::Ins) {
                    sc += spec.go as i64;
                }
                sc += spec.ge as i64;
                i += 1;
            }
            AlignmentOperation::Del => {
                if prev != Some(AlignmentOperation::Del) {
                    sc += spec.go as i64;
                }
                sc += spec.ge as i64;
                j += 1;
            }
            AlignmentOperation::Xclip(k) => {
                // a clip at position 0 is the prefix clip iff it accounts for xstart (an empty alignment may carry
                // a suffix clip at position 0)
                sc += if i == 0 && k == a.xstart && !(k == 0 && a.xend == 0 && a.xlen > 0) { clips[0] } else { clips[1] } as i64;
                i += k;
            }
            AlignmentOperation::Yclip(k) => {
                sc += if j == 0 && k == a.ystart && !(k == 0 && a.yend == 0 && a.ylen > 0) { clips[2] } else { clips[3] } as i64;
                j += k;
            }
        }
        prev = Some(o);
    }
    Some(sc)
}

/// plain Gotoh, global, i64, true minus infinity: optimum of the documented model
fn gotoh_global_i64(spec: &Spec) -> i64 {
    const NEG: i64 = i64::MIN / 4;
    let (m, n) = (spec.x.len(), spec.y.len());
    let (go, ge) = (spec.go as i64, spec.ge as i64);
    // column-wise over y like the original: index i over x
    let mut s = vec![NEG; m + 1];
    let mut d = vec![NEG; m + 1]; // gap consuming y (Del)
    s[0] = 0;
    for i in 1..=m {
        s[i] = go + ge * i as i64;
    }
    for j in 1..=n {
        let mut ns = vec![NEG; m + 1];
        let mut nd = vec![NEG; m + 1];
        let mut ins = vec![NEG; m + 1];
        nd[0] = go + ge * j as i64;
        ns[0] = nd[0];
        for i in 1..=m {
            let mm = s[i - 1] + spec.tab.score(spec.x[i - 1], spec.y[j - 1]) as i64;
            ins[i] = max(ins[i - 1] + ge, ns[i - 1] + go + ge);
            nd[i] = max(d[i] + ge, s[i] + go + ge);
            ns[i] = max(mm, max(ins[i], nd[i]));
        }
        s = ns;
        d = nd;
    }
    s[m]
}

/// the score computation of Aligner::custom transcribed to i64 (same MIN_SCORE constant, same order of
/// comparisons, no traceback): "what the code would compute if i32 did not overflow"
#[allow(non_snake_case)]
fn custom_score_i64(spec: &Spec) -> i64 {
    let x = &spec.x;
    let y = &spec.y;
    let c = spec.effective_clips();
    let (xp, xs, yp, ys) = (c[0] as i64, c[1] as i64, c[2] as i64, c[3] as i64);
    let (go, ge) = (spec.go as i64, spec.ge as i64);
    const MIN: i64 = MIN_SCORE as i64;
    let (m, n) = (x.len(), y.len());
    let mut I = [vec![MIN; m + 1], vec![MIN; m + 1]];
    let mut D = [vec![MIN; m + 1], vec![MIN; m + 1]];
    let mut S = [vec![MIN; m + 1], vec![MIN; m + 1]];
    let mut Sn = vec![MIN; m + 1];
    for k in 0..2 {
        S[k][0] = 0;
        if k == 0 {
            Sn[0] = ys;
        }
        for i in 1..=m {
            if i == 1 {
                I[k][i] = go + ge;
            } else {
                let i_score = go + ge * (i as i64);
                let c_score = xp + go + ge;
                I[k][i] = if i_score > c_score { i_score } else { c_score };
            }
            if i != m {
                S[k][i] = MIN;
            }
            if I[k][i] > S[k][i] {
                S[k][i] = I[k][i];
            }
            if xp > S[k][i] {
                S[k][i] = xp;
            }
            if i != m && S[k][i] + xs > S[k][m] {
                S[k][m] = S[k][i] + xs;
            }
            if S[k][i] + ys > Sn[i] {
                Sn[i] = S[k][i] + ys;
            }
        }
    }
    for j in 1..=n {
        let curr = j % 2;
        let prev = 1 - curr;
        I[curr][0] = MIN;
        if j == 1 {
            D[curr][0] = go + ge;
        } else {
            let d_score = go + ge * (j as i64);
            let c_score = yp + go + ge;
            D[curr][0] = if d_score > c_score { d_score } else { c_score };
        }
        if D[curr][0] > yp {
            S[curr][0] = D[curr][0];
        } else {
            S[curr][0] = yp;
        }
        if j == n && Sn[0] > S[curr][0] {
            S[curr][0] = Sn[0];
        } else if S[curr][0] + ys > Sn[0] {
            Sn[0] = S[curr][0] + ys;
        }
        for i in 1..=m {
            S[curr][i] = MIN;
        }
        let q = y[j - 1];
        let xclip_score = xp + max(yp, go + ge * (j as i64));
        for i in 1..m + 1 {
            let p = x[i - 1];
            let m_score = S[prev][i - 1] + spec.tab.score(p, q) as i64;
            let i_score = I[curr][i - 1] + ge;
            let s_score = S[curr][i - 1] + go + ge;
            let best_i_score = if i_score > s_score { i_score } else { s_score };
            let d_score = D[prev][i] + ge;
            let s_score = S[prev][i] + go + ge;
            let best_d_score = if d_score > s_score { d_score } else { s_score };
            let mut best_s_score = S[curr][i];
            if m_score > best_s_score {
                best_s_score = m_score;
            }
            if best_i_score > best_s_score {
                best_s_score = best_i_score;
            }
            if best_d_score > best_s_score {
                best_s_score = best_d_score;
            }
            if xclip_score > best_s_score {
                best_s_score = xclip_score;
            }
            let yclip_score = yp + go + ge * (i as i64);
            if yclip_score > best_s_score {
                best_s_score = yclip_score;
            }
            S[curr][i] = best_s_score;
            I[curr][i] = best_i_score;
            D[curr][i] = best_d_score;
            if S[curr][i] + xs > S[curr][m] {
                S[curr][m] = S[curr][i] + xs;
            }
            if S[curr][i] + ys > Sn[i] {
                Sn[i] = S[curr][i] + ys;
            }
        }
    }
    for i in 0..=m {
        let curr = n % 2;
        if Sn[i] > S[curr][i] {
            S[curr][i] = Sn[i];
        }
        if S[curr][i] + xs > S[curr][m] {
            S[curr][m] = S[curr][i] + xs;
        }
    }
    for i in 1..=m {
        let curr = n % 2;
        let s_score = S[curr][i - 1] + go + ge;
        if s_score > I[curr][i] {
            I[curr][i] = s_score;
        }
        if s_score > S[curr][i] {
            S[curr][i] = s_score;
            if S[curr][i] + xs > S[curr][m] {
                S[curr][m] = S[curr][i] + xs;
            }
        }
    }
    S[n % 2][m]
}

fn parse_pen(s: &str) -> i32 {
    if s == "min" {
        MIN_SCORE
    } else {
        s.replace('_', "").parse().expect("integer")
    }
}
fn parse_seq(s: &str) -> Vec<u8> {
    if let Some((c, k)) = s.split_once('*') {
        let k: usize = k.replace('_', "").parse().unwrap();
        vec![c.as_bytes()[0]; k]
    } else {
        s.as_bytes().to_vec()
    }
}

fn profile_name() -> &'static str {
    if cfg!(debug_assertions) {
        "A(overflow-checks)"
    } else {
        "B(plain release)"
    }
}

fn cmd_single(a: &[String]) {
    let spec = Spec {
        mode: a[0].clone(),
        x: parse_seq(&a[1]),
        y: parse_seq(&a[2]),
        tab: Tab { t: [parse_pen(&a[3]), parse_pen(&a[4]), parse_pen(&a[5]), parse_pen(&a[6])] },
        go: parse_pen(&a[7]),
        ge: parse_pen(&a[8]),
        clips: [parse_pen(&a[9]), parse_pen(&a[10]), parse_pen(&a[11]), parse_pen(&a[12])],
    };
    println!("[{}] {}", profile_name(), spec.describe());
    let t0 = Instant::now();
    let r64 = custom_score_i64(&spec);
    let t64 = t0.elapsed();
    print!("    i64 transcription of custom(): score={} ({:.3}s)", r64, t64.as_secs_f64());
    if spec.mode == "global" {
        print!("; plain Gotoh global i64 (true optimum)={}", gotoh_global_i64(&spec));
    }
    println!();
    match run(&spec) {
        Outcome::Ok(al, dt) => {
            println!(
                "    RESULT score={} xstart={} xend={} ystart={} yend={} xlen={} ylen={} nops={} ops={} path_score_i64={:?} elapsed={:.3}s",
                al.score,
                al.xstart,
                al.xend,
                al.ystart,
                al.yend,
                al.xlen,
                al.ylen,
                al.operations.len(),
                ops_string(&al.operations, 20),
                path_score_i64(&spec, &al),
                dt.as_secs_f64()
            );
        }
        Outcome::Panic(msg, dt) => println!("    PANIC {} elapsed={:.3}s", msg, dt.as_secs_f64()),
        Outcome::Hang => {
            println!("    HANG (no result within {} s)", WATCHDOG.as_secs());
            std::process::exit(3);
        }
    }
}

struct Lcg(u64);
impl Lcg {
    fn next(&mut self) -> u32 {
        self.0 = self.0.wrapping_mul(6364136223846793005).wrapping_add(1442695040888963407);
        (self.0 >> 33) as u32
    }
    fn below(&mut self, k: u32) -> u32 {
        self.next() % k
    }
}

fn gen_specs(b: i32, mode: &str, len: usize, npairs: usize) -> Vec<Spec> {
    let mut rng = Lcg(0x9E3779B97F4A7C15 ^ (len as u64));
    let mut v = Vec::new();
    for case in 0..npairs {
        let x: Vec<u8> = (0..len).map(|_| if rng.below(2) == 0 { b'A' } else { b'C' }).collect();
        let y: Vec<u8> = (0..len).map(|_| if rng.below(2) == 0 { b'A' } else { b'C' }).collect();
        let tab = match case % 3 {
            0 => Tab { t: [b, -b, -b, b] },
            1 => Tab { t: [-b, b, b, -b] },
            _ => {
                let mut t = [0i32; 4];
                for e in t.iter_mut() {
                    *e = if rng.below(2) == 0 { b } else { -b };
                }
                Tab { t }
            }
        };
        let mut clips = [MIN_SCORE; 4];
        // always draw, so that the sequence of cases is identical for both modes
        for c in clips.iter_mut() {
            let v = match rng.below(3) {
                0 => MIN_SCORE,
                1 => 0,
                _ => -b,
            };
            if mode == "custom" {
                *c = v;
            }
        }
        v.push(Spec { mode: mode.to_string(), x, y, tab, go: -b, ge: -b, clips });
    }
    v
}

/// child process: one case of an env run; prints exactly one line
fn cmd_envcase(a: &[String]) {
    let b: i32 = parse_pen(&a[0]);
    let mode = a[1].clone();
    let len: usize = a[2].parse().unwrap();
    let npairs: usize = a[3].parse().unwrap();
    let case: usize = a[4].parse().unwrap();
    let spec = gen_specs(b, &mode, len, npairs).swap_remove(case);
    let r64 = custom_score_i64(&spec);
    match run(&spec) {
        Outcome::Ok(al, _) => {
            let ps = path_score_i64(&spec, &al);
            println!(
                "OK score={} x[{}..{}] y[{}..{}] ops={} | i64transcription={} pathscore={} {}{}",
                al.score,
                al.xstart,
                al.xend,
                al.ystart,
                al.yend,
                ops_string(&al.operations, usize::MAX),
                r64,
                ps.map(|v| v.to_string()).unwrap_or("invalid-path".into()),
                if al.score as i64 != r64 { "NE64 " } else { "" },
                if ps != Some(al.score as i64) { "NEPATH" } else { "" },
            );
        }
        Outcome::Panic(msg, _) => println!("PANIC {} | i64transcription={}", msg, r64),
        Outcome::Hang => {
            println!("HANG | i64transcription={}", r64);
            std::process::exit(3);
        }
    }
}

/// parent: every case in its own process (a run-away traceback ends in an allocation failure = SIGABRT of the child)
fn cmd_env(a: &[String]) {
    let b: i32 = parse_pen(&a[0]);
    let mode = a[1].clone();
    let len: usize = a[2].parse().unwrap();
    let npairs: usize = a[3].parse().unwrap();
    let verbose = a.len() > 4;
    let k: i64 = (1i64 << 31) + MIN_SCORE as i64;
    println!(
        "[{}] env run: B={} mode={} m=n={} pairs={}  K=2^31+MIN_SCORE={}  (m+1)*B={}  (m+2)*B={}",
        profile_name(),
        b,
        mode,
        len,
        npairs,
        k,
        (len as i64 + 1) * b as i64,
        (len as i64 + 2) * b as i64
    );
    let specs = gen_specs(b, &mode, len, npairs);
    let exe = std::env::current_exe().unwrap();
    let mut classes: std::collections::BTreeMap<String, (usize, Vec<String>)> = Default::default();
    let mut checksum: u64 = 0xcbf29ce484222325;
    let mut log = String::new();
    for (case, spec) in specs.iter().enumerate() {
        let t0 = Instant::now();
        let out = std::process::Command::new(&exe)
            .args(["envcase", &a[0], &a[1], &a[2], &a[3], &case.to_string()])
            .env("RT_CAP_MB", "256")
            .output()
            .unwrap();
        let dt = t0.elapsed();
        let line = String::from_utf8_lossy(&out.stdout).trim().to_string();
        let err = String::from_utf8_lossy(&out.stderr);
        let (class, shown) = if out.status.success() || out.status.code() == Some(3) {
            let class = if line.starts_with("OK") {
                let mut c = "OK".to_string();
                if line.contains("NE64") {
                    c.push_str(" but score != i64 transcription of the same recurrences");
                }
                if line.contains("NEPATH") {
                    c.push_str(" but score != score of the reported path");
                }
                c
            } else if line.starts_with("PANIC") {
                line.split(" | i64").next().unwrap().to_string()
            } else {
                "HANG".to_string()
            };
            (class, line.clone())
        } else {
            let first = err.lines().next().unwrap_or("").to_string();
            (
                format!("RUNAWAY (child died: {:?}; stderr: {}; cap 256 MiB per allocation)", out.status, first),
                format!("RUNAWAY after {:.2}s", dt.as_secs_f64()),
            )
        };
        // checksum over the visible result only (not over the i64 diagnostics)
        let vis = shown.split(" | ").next().unwrap().split(" after ").next().unwrap().to_string();
        for by in vis.bytes() {
            checksum ^= by as u64;
            checksum = checksum.wrapping_mul(0x100000001b3);
        }
        let full = format!("case {} {} => {}", case, spec.describe(), shown);
        log.push_str(&full);
        log.push('\n');
        if verbose {
            println!("  {}", full);
        }
        let e = classes.entry(class).or_insert((0, Vec::new()));
        e.0 += 1;
        if e.1.len() < 3 {
            e.1.push(full);
        }
    }
    let dir = std::path::Path::new("/var/tmp/w/fixw/scratch/rt/out");
    let _ = std::fs::create_dir_all(dir);
    let fname = dir.join(format!("env_{}_{}_{}_{}.txt", if cfg!(debug_assertions) { "A" } else { "B" }, b, mode, len));
    std::fs::write(&fname, log).unwrap();
    println!("    SUMMARY B={} mode={} checksum(results)={:016x} per-case log: {}", b, mode, checksum, fname.display());
    for (class, (cnt, ex)) in &classes {
        println!("    CLASS x{}: {}", cnt, class);
        if class != "OK" {
            for e in ex {
                println!("        e.g. {}", e);
            }
        }
    }
}

/// global allocator with a cap on the size of a single request (RT_CAP_MB): a run-away `operations` vector
/// then ends in `handle_alloc_error` (abort) quickly instead of eating the machine
struct CapAlloc;
static CAP: std::sync::atomic::AtomicUsize = std::sync::atomic::AtomicUsize::new(usize::MAX);
unsafe impl std::alloc::GlobalAlloc for CapAlloc {
    unsafe fn alloc(&self, l: std::alloc::Layout) -> *mut u8 {
        if l.size() > CAP.load(std::sync::atomic::Ordering::Relaxed) {
            return std::ptr::null_mut();
        }
        std::alloc::System.alloc(l)
    }
    unsafe fn dealloc(&self, p: *mut u8, l: std::alloc::Layout) {
        std::alloc::System.dealloc(p, l)
    }
    unsafe fn realloc(&self, p: *mut u8, l: std::alloc::Layout, new: usize) -> *mut u8 {
        if new > CAP.load(std::sync::atomic::Ordering::Relaxed) {
            return std::ptr::null_mut();
        }
        std::alloc::System.realloc(p, l, new)
    }
}
#[global_allocator]
static GLOBAL: CapAlloc = CapAlloc;

fn main() {
    panic::set_hook(Box::new(|info| {
        let s = info.to_string();
        LAST_PANIC.with(|p| *p.borrow_mut() = s.replace('\n', " | "));
    }));
    if let Ok(mb) = std::env::var("RT_CAP_MB") {
        CAP.store(mb.parse::<usize>().unwrap() << 20, std::sync::atomic::Ordering::Relaxed);
    }
    let args: Vec<String> = std::env::args().skip(1).collect();
    match args.first().map(|s| s.as_str()) {
        Some("single") => cmd_single(&args[1..]),
        Some("env") => cmd_env(&args[1..]),
        Some("envcase") => cmd_envcase(&args[1..]),
        _ => eprintln!("see the header of src/main.rs"),
    }
    std::process::exit(0);
}
