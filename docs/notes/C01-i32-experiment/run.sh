#!/bin/bash
# runs every experiment under profile A (target/release) and profile B (target/nochk)
cd /var/tmp/w/fixw/scratch/rt
# RT_CAP_MB: cap on a single allocation request (see CapAlloc in src/main.rs); a run-away traceback aborts at that point
# (first run, kept in out_run1.txt, had no cap but `ulimit -v 16000000`: E1 = HANG 20 s, E2/E3 = "memory allocation of 17179869184 bytes failed")
export RT_CAP_MB=1024
ulimit -v 16000000
R() { for p in release nochk; do t0=$(date +%s.%N); ./target/$p/rt "$@" 2>&1 | grep -v '^   [0-9]*: \|^stack backtrace\|^note: Some'; echo "    exit=${PIPESTATUS[0]} wall=$(echo "$(date +%s.%N) - $t0" | bc)s"; done; }
MIN=min
echo "=== E1 x=A y=A match=-900000000 go=-500000000 ge=0 clips MIN"
R single custom A A -900000000 0 0 0 -500000000 0 min min min min
R single global A A -900000000 0 0 0 -500000000 0 min min min min
echo "=== E1v x=A y=A match=-900000001 go=-450000000 ge=0"
R single custom A A -900000001 0 0 0 -450000000 0 min min min min
R single global A A -900000001 0 0 0 -450000000 0 min min min min
echo "=== E2 x=AA y=AA match=-450000000 go=-500000000 ge=0"
R single custom AA AA -450000000 0 0 0 -500000000 0 min min min min
R single global AA AA -450000000 0 0 0 -500000000 0 min min min min
echo "=== E3 x=A*L y=C*L match=1 mismatch=-100000 go=-100000 ge=-100000 global"
for L in 8000 8600 10000; do R single global "A*$L" "C*$L" 1 -100000 -100000 1 -100000 -100000 min min min min; done
echo "=== E4 x=y=A*L match=1000000 mismatch=-1 go=-5 ge=-1"
for L in 2000 2148 3000; do for mode in global local; do R single $mode "A*$L" "A*$L" 1000000 -1 -1 1000000 -5 -1 min min min min; done; done
echo "=== E5 B=20132659 custom"
R env 20132659 custom 62 200
echo "=== E6 B=20452226 global"
R env 20452226 global 62 200
echo "=== E7"
for B in 20132659 20300000 20400000 20450000 20452226; do R env $B custom 62 200; done
echo "=== extra: sharp threshold, B=20452225 ((m+1)*B = 1288490175 <= K)"
R env 20452225 custom 62 200
R env 20452225 global 62 200
